#!/bin/bash
# Build the simulator against $VERIF_REPO (default /repo) with the hooks on.
# usage: build.sh [--cli]   (--cli also builds the real grass binary)
set -euo pipefail
export CARGO_NET_OFFLINE=true
VERIF="${VERIF:-$(cd "$(dirname "$0")" && pwd)}"
REPO="${VERIF_REPO:-/repo}"
TARGET="${VERIF_TARGET:-$VERIF/target}"
SHADOW="$TARGET/shadow"
mkdir -p "$SHADOW"
sed -e "s#@REPO@#$REPO#g" -e "s#@SIM@#$VERIF/sim#g" "$VERIF/sim/Cargo.toml.in" > "$SHADOW/Cargo.toml.new"
if ! cmp -s "$SHADOW/Cargo.toml.new" "$SHADOW/Cargo.toml" 2>/dev/null; then mv "$SHADOW/Cargo.toml.new" "$SHADOW/Cargo.toml"; else rm "$SHADOW/Cargo.toml.new"; fi
cp "$VERIF/sim/Cargo.lock" "$SHADOW/Cargo.lock"
( cd "$SHADOW" && RUSTFLAGS="--cfg grass_verif -A unexpected_cfgs -C link-arg=-Wl,--export-dynamic" cargo build --offline --release --target-dir "$TARGET/sim" > "$TARGET/sim-build.log" 2>&1 ) || { grep -E "^error" -A14 "$TARGET/sim-build.log" | head -n 80; echo "HARNESS-ERROR build of grass-sim failed"; exit 2; }
if [ "${1:-}" = "--cli" ]; then
  # the real binary, shipped release semantics (panic=abort); LTO off only to keep the build short
  ( cd "$REPO" && CARGO_PROFILE_RELEASE_LTO=false CARGO_PROFILE_RELEASE_CODEGEN_UNITS=16 CARGO_PROFILE_RELEASE_DEBUG=0 \
      cargo build --offline --release -p grass --bin grass --target-dir "$TARGET/cli" 2>&1 | tail -n 30 ) || { echo "HARNESS-ERROR build of grass CLI failed"; exit 2; }
  gcc -O2 -shared -fPIC -o "$TARGET/faultshim.so" "$VERIF/sim/faultshim.c" -ldl || { echo "HARNESS-ERROR build of faultshim failed"; exit 2; }
fi
