#!/bin/bash
# setup_cmd: build the simulator, the CLI under test and the fault shim, offline.
cd "$(dirname "$0")" && exec ./build.sh --cli
