#!/bin/bash
# setup_cmd: build the simulator, the CLI under test and the fault shim, offline.
cd /verif && exec ./build.sh --cli
