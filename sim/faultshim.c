/* faultshim.so — LD_PRELOADed into the real `grass` binary by the cli engine.
 *
 * Interposes read, write, open, open64, openat, openat64, close, getrandom.
 * Every intercepted call is classified by stream:
 *    fd0 fd1 fd2           the standard streams
 *    @<path>               a file opened by this process (full path as passed)
 * and counted per (call, class).  A fault plan in VERIF_FAULT_PLAN,
 *    <call>:<class>:<nth>:<action>[;<call>:<class>:<nth>:<action>...]
 * alters the nth (0-based) call of that kind on that class; a class written
 * as `@*suffix` matches any path ending in `suffix`. Actions:
 *    EINTR        fail once with EINTR (the caller's retry then succeeds)
 *    short<k>     perform the real call with the count reduced to k (k>=1)
 *    E<NAME>      fail with that errno (ENOSPC EIO EPIPE EACCES ENOENT EISDIR EMFILE EBADF EAGAIN)
 * Every intercepted call is appended to the file named by VERIF_SHIM_LOG:
 *    <call> <class> <nth> <requested> <result> <errno> <action-or-->
 * getrandom() is answered from a SplitMix64 stream seeded by VERIF_SHIM_SEED
 * (if set), so that the binary's hash keys are a function of the case.
 */
#define _GNU_SOURCE
#include <dlfcn.h>
#include <errno.h>
#include <fcntl.h>
#include <stdarg.h>
#include <stdint.h>
#include <stdio.h>
#include <stdlib.h>
#include <string.h>
#include <sys/syscall.h>
#include <sys/types.h>
#include <unistd.h>

#define MAXFD 256
#define MAXPLAN 16
#define MAXCLS 64

static char fd_path[MAXFD][256];
static int log_fd = -1;
static int inited = 0;
static int in_shim = 0;

struct plan_ent {
  char call[8];
  char cls[256];
  long nth;
  char action[24];
  int used;
};
static struct plan_ent plan[MAXPLAN];
static int nplan = 0;

struct counter {
  char call[8];
  char cls[256];
  long n;
};
static struct counter counters[MAXCLS];
static int ncounters = 0;

static uint64_t rng_state = 0;
static int rng_on = 0;

static ssize_t raw_write(int fd, const void *b, size_t n) { return syscall(SYS_write, fd, b, n); }

static void init(void) {
  if (inited) return;
  inited = 1;
  const char *lp = getenv("VERIF_SHIM_LOG");
  if (lp && *lp) {
    log_fd = syscall(SYS_openat, AT_FDCWD, lp, O_WRONLY | O_CREAT | O_APPEND | O_CLOEXEC, 0644);
    if (log_fd >= 0 && log_fd < 100) {
      /* move it out of the way of the program's own descriptors */
      int nfd = syscall(SYS_fcntl, log_fd, F_DUPFD_CLOEXEC, 200);
      if (nfd >= 0) {
        syscall(SYS_close, log_fd);
        log_fd = nfd;
      }
    }
  }
  const char *sd = getenv("VERIF_SHIM_SEED");
  if (sd && *sd) {
    rng_state = strtoull(sd, NULL, 10);
    rng_on = 1;
  }
  const char *p = getenv("VERIF_FAULT_PLAN");
  if (p && *p) {
    char buf[2048];
    strncpy(buf, p, sizeof buf - 1);
    buf[sizeof buf - 1] = 0;
    char *save = NULL;
    for (char *ent = strtok_r(buf, ";", &save); ent && nplan < MAXPLAN; ent = strtok_r(NULL, ";", &save)) {
      /* call:class:nth:action  — class may contain ':'? paths here never do */
      char *a = strchr(ent, ':');
      if (!a) continue;
      *a++ = 0;
      char *c = strrchr(a, ':');
      if (!c) continue;
      *c++ = 0;
      char *b = strrchr(a, ':');
      if (!b) continue;
      *b++ = 0;
      struct plan_ent *e = &plan[nplan++];
      strncpy(e->call, ent, sizeof e->call - 1);
      strncpy(e->cls, a, sizeof e->cls - 1);
      e->nth = atol(b);
      strncpy(e->action, c, sizeof e->action - 1);
      e->used = 0;
    }
  }
}

static void classify(int fd, char *out, size_t n) {
  if (fd >= 0 && fd <= 2) {
    snprintf(out, n, "fd%d", fd);
  } else if (fd >= 0 && fd < MAXFD && fd_path[fd][0]) {
    snprintf(out, n, "@%s", fd_path[fd]);
  } else {
    snprintf(out, n, "fd?");
  }
}

static long bump(const char *call, const char *cls) {
  for (int i = 0; i < ncounters; i++)
    if (!strcmp(counters[i].call, call) && !strcmp(counters[i].cls, cls)) return counters[i].n++;
  if (ncounters < MAXCLS) {
    struct counter *c = &counters[ncounters++];
    strncpy(c->call, call, sizeof c->call - 1);
    strncpy(c->cls, cls, sizeof c->cls - 1);
    c->n = 1;
    return 0;
  }
  return -1;
}

static int cls_match(const char *pat, const char *cls) {
  if (pat[0] == '@' && pat[1] == '*') {
    const char *suf = pat + 2;
    size_t ls = strlen(suf), lc = strlen(cls);
    return cls[0] == '@' && lc >= ls && !strcmp(cls + lc - ls, suf);
  }
  return !strcmp(pat, cls);
}

static const char *find_action(const char *call, const char *cls, long nth) {
  for (int i = 0; i < nplan; i++)
    if (!plan[i].used && !strcmp(plan[i].call, call) && plan[i].nth == nth && cls_match(plan[i].cls, cls)) {
      plan[i].used = 1;
      return plan[i].action;
    }
  return NULL;
}

static int errno_of(const char *a) {
  if (!strcmp(a, "ENOSPC")) return ENOSPC;
  if (!strcmp(a, "EIO")) return EIO;
  if (!strcmp(a, "EPIPE")) return EPIPE;
  if (!strcmp(a, "EACCES")) return EACCES;
  if (!strcmp(a, "ENOENT")) return ENOENT;
  if (!strcmp(a, "EISDIR")) return EISDIR;
  if (!strcmp(a, "EMFILE")) return EMFILE;
  if (!strcmp(a, "EBADF")) return EBADF;
  if (!strcmp(a, "EAGAIN")) return EAGAIN;
  if (!strcmp(a, "EINTR")) return EINTR;
  return EIO;
}

static void logline(const char *call, const char *cls, long nth, long req, long res, int err, const char *action) {
  if (log_fd < 0) return;
  char b[640];
  int n = snprintf(b, sizeof b, "%s %s %ld %ld %ld %d %s\n", call, cls, nth, req, res, err, action ? action : "-");
  if (n > 0) raw_write(log_fd, b, (size_t)n);
}

ssize_t read(int fd, void *buf, size_t count) {
  init();
  if (in_shim || fd == log_fd) return syscall(SYS_read, fd, buf, count);
  char cls[300];
  classify(fd, cls, sizeof cls);
  long nth = bump("read", cls);
  const char *a = find_action("read", cls, nth);
  ssize_t r;
  if (a && !strncmp(a, "short", 5)) {
    size_t k = (size_t)atol(a + 5);
    if (k < 1) k = 1;
    r = syscall(SYS_read, fd, buf, count < k ? count : k);
  } else if (a) {
    errno = errno_of(a);
    r = -1;
  } else {
    r = syscall(SYS_read, fd, buf, count);
  }
  int e = errno;
  logline("read", cls, nth, (long)count, (long)r, r < 0 ? e : 0, a);
  errno = e;
  return r;
}

ssize_t write(int fd, const void *buf, size_t count) {
  init();
  if (in_shim || fd == log_fd) return syscall(SYS_write, fd, buf, count);
  char cls[300];
  classify(fd, cls, sizeof cls);
  long nth = bump("write", cls);
  const char *a = find_action("write", cls, nth);
  ssize_t r;
  if (a && !strncmp(a, "short", 5)) {
    size_t k = (size_t)atol(a + 5);
    if (k < 1) k = 1;
    r = syscall(SYS_write, fd, buf, count < k ? count : k);
  } else if (a) {
    errno = errno_of(a);
    r = -1;
  } else {
    r = syscall(SYS_write, fd, buf, count);
  }
  int e = errno;
  logline("write", cls, nth, (long)count, (long)r, r < 0 ? e : 0, a);
  errno = e;
  return r;
}

static int do_open(int dirfd, const char *path, int flags, mode_t mode) {
  init();
  if (in_shim) return syscall(SYS_openat, dirfd, path, flags, mode);
  char cls[300];
  snprintf(cls, sizeof cls, "@%s", path ? path : "");
  long nth = bump("open", cls);
  const char *a = find_action("open", cls, nth);
  int r;
  if (a && strcmp(a, "EINTR") && strncmp(a, "short", 5)) {
    errno = errno_of(a);
    r = -1;
  } else if (a && !strcmp(a, "EINTR")) {
    errno = EINTR;
    r = -1;
  } else {
    r = syscall(SYS_openat, dirfd, path, flags, mode);
  }
  int e = errno;
  if (r >= 0 && r < MAXFD && path) {
    strncpy(fd_path[r], path, sizeof fd_path[r] - 1);
    fd_path[r][sizeof fd_path[r] - 1] = 0;
  }
  logline("open", cls, nth, (long)flags, (long)r, r < 0 ? e : 0, a);
  errno = e;
  return r;
}

int open(const char *path, int flags, ...) {
  mode_t mode = 0;
  if (flags & (O_CREAT | O_TMPFILE)) {
    va_list ap;
    va_start(ap, flags);
    mode = va_arg(ap, mode_t);
    va_end(ap);
  }
  return do_open(AT_FDCWD, path, flags, mode);
}

int open64(const char *path, int flags, ...) {
  mode_t mode = 0;
  if (flags & (O_CREAT | O_TMPFILE)) {
    va_list ap;
    va_start(ap, flags);
    mode = va_arg(ap, mode_t);
    va_end(ap);
  }
  return do_open(AT_FDCWD, path, flags | O_LARGEFILE, mode);
}

int openat(int dirfd, const char *path, int flags, ...) {
  mode_t mode = 0;
  if (flags & (O_CREAT | O_TMPFILE)) {
    va_list ap;
    va_start(ap, flags);
    mode = va_arg(ap, mode_t);
    va_end(ap);
  }
  return do_open(dirfd, path, flags, mode);
}

int openat64(int dirfd, const char *path, int flags, ...) {
  mode_t mode = 0;
  if (flags & (O_CREAT | O_TMPFILE)) {
    va_list ap;
    va_start(ap, flags);
    mode = va_arg(ap, mode_t);
    va_end(ap);
  }
  return do_open(dirfd, path, flags | O_LARGEFILE, mode);
}

int close(int fd) {
  init();
  if (fd == log_fd) return 0; /* keep the log reachable */
  if (fd >= 0 && fd < MAXFD) fd_path[fd][0] = 0;
  return syscall(SYS_close, fd);
}

static uint64_t splitmix(void) {
  uint64_t z = (rng_state += 0x9E3779B97F4A7C15ULL);
  z = (z ^ (z >> 30)) * 0xBF58476D1CE4E5B9ULL;
  z = (z ^ (z >> 27)) * 0x94D049BB133111EBULL;
  return z ^ (z >> 31);
}

ssize_t getrandom(void *buf, size_t buflen, unsigned int flags) {
  init();
  if (!rng_on) return syscall(SYS_getrandom, buf, buflen, flags);
  unsigned char *p = buf;
  for (size_t i = 0; i < buflen; i++) {
    if (i % 8 == 0) {
      uint64_t v = splitmix();
      memcpy(p + i, &v, buflen - i < 8 ? buflen - i : 8);
    }
  }
  return (ssize_t)buflen;
}
