/* placeholder; replaced by the real shim together with the cli engine */
int grass_sim_faultshim_placeholder;
