//! SplitMix64 -> xoshiro256**. Own implementation so that the stream is stable
//! across crate versions (a seed must mean the same thing next month).

#[derive(Clone, Debug)]
pub struct Rng {
    s: [u64; 4],
}

pub fn splitmix(x: &mut u64) -> u64 {
    *x = x.wrapping_add(0x9E37_79B9_7F4A_7C15);
    let mut z = *x;
    z = (z ^ (z >> 30)).wrapping_mul(0xBF58_476D_1CE4_E5B9);
    z = (z ^ (z >> 27)).wrapping_mul(0x94D0_49BB_1331_11EB);
    z ^ (z >> 31)
}

/// Order-sensitive hash combine of two words.
pub fn mix(a: u64, b: u64) -> u64 {
    let mut x = a ^ b.rotate_left(32) ^ 0xD6E8_FEB8_6659_FD93;
    let r = splitmix(&mut x);
    let mut y = r ^ b;
    splitmix(&mut y)
}

pub fn mix_str(a: u64, s: &str) -> u64 {
    hash_bytes(a, s.as_bytes())
}

pub fn hash_bytes(seed: u64, b: &[u8]) -> u64 {
    // FNV-1a 64 then a finaliser; good enough for de-duplication
    let mut h: u64 = 0xcbf2_9ce4_8422_2325 ^ seed;
    for &c in b {
        h ^= c as u64;
        h = h.wrapping_mul(0x0000_0100_0000_01B3);
    }
    let mut x = h;
    splitmix(&mut x)
}

impl Rng {
    pub fn new(seed: u64) -> Self {
        let mut x = seed;
        let s = [
            splitmix(&mut x),
            splitmix(&mut x),
            splitmix(&mut x),
            splitmix(&mut x),
        ];
        Rng { s }
    }

    pub fn next_u64(&mut self) -> u64 {
        let result = self.s[1].wrapping_mul(5).rotate_left(7).wrapping_mul(9);
        let t = self.s[1] << 17;
        self.s[2] ^= self.s[0];
        self.s[3] ^= self.s[1];
        self.s[1] ^= self.s[2];
        self.s[0] ^= self.s[3];
        self.s[2] ^= t;
        self.s[3] = self.s[3].rotate_left(45);
        result
    }

    /// Uniform in [0, n). n == 0 returns 0.
    pub fn below(&mut self, n: u64) -> u64 {
        if n == 0 {
            return 0;
        }
        // multiply-shift; bias is irrelevant here
        ((self.next_u64() as u128 * n as u128) >> 64) as u64
    }

    pub fn usize_below(&mut self, n: usize) -> usize {
        self.below(n as u64) as usize
    }

    /// Inclusive range.
    pub fn range(&mut self, lo: u64, hi: u64) -> u64 {
        lo + self.below(hi - lo + 1)
    }

    pub fn chance(&mut self, p: f64) -> bool {
        (self.next_u64() >> 11) as f64 / ((1u64 << 53) as f64) < p
    }

    pub fn pick<'a, T>(&mut self, xs: &'a [T]) -> &'a T {
        &xs[self.usize_below(xs.len())]
    }

    pub fn shuffle<T>(&mut self, xs: &mut [T]) {
        for i in (1..xs.len()).rev() {
            let j = self.usize_below(i + 1);
            xs.swap(i, j);
        }
    }

    pub fn fork(&mut self) -> Rng {
        Rng::new(self.next_u64())
    }
}
