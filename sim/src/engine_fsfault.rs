//! C01, fault-reachable slice: whatever the file system does — refuse, lie about
//! existence a moment ago, hand back half a file, hand back garbage — the caller
//! gets `Ok` or a structured `Err`, never a panic, abort or endless loop.

use std::collections::BTreeMap;

use serde_json::{json, Value};

use crate::case::{ContentFault, Entry, Fault, JobSpec, IO_KINDS};
use crate::engine::{Ctx, Engine, Progress, UnitResult, Violation};
use crate::gen_project::{gen_project, GenOpts, Pools};
use crate::job::{run_job, JobResult, Outcome};
use crate::prng::{hash_bytes, mix, mix_str, Rng};
use crate::simfs::FsOp;

pub struct FsFault;

const REF_TICK_LIMIT: u64 = 100_000;
/// label of jobs whose entry TEXT (from_string) already carries the corruption
const CORRUPTED_ENTRY_TEXT: &str = "corrupted-entry-text";
/// Call-depth limit (hook H3b) for runs whose text is corrupted: a fault can
/// manufacture a legitimately unbounded program (a bit flip that turns the
/// base case of a recursive function into an unknown function: endless
/// recursion). Such runs are `inconclusive`; the limit lets them end by a
/// caught panic instead of a stack overflow that takes the worker down. Runs
/// of a single intact text have no limit: there a stack overflow is a violation.
/// (Generated multi-file projects get the same limit: they can import themselves.)
const CORRUPTED_TEXT_DEPTH: u32 = 200;
/// Evaluation fuel for corrupted text: exhaustion is `inconclusive` there
/// anyway (a flipped loop bound or condition is an honest long loop), so a
/// small budget only saves time.
const CORRUPTED_TEXT_FUEL: u64 = 200_000;

fn n_project_units(tier: &str) -> u64 {
    if tier == "thorough" {
        30_000
    } else {
        500
    }
}

fn n_sweep_units(ctx: &Ctx) -> u64 {
    if ctx.tier == "thorough" {
        ctx.corpus.len() as u64
    } else {
        450
    }
}

/// Verdict for one faulted run. `ref_ok` = the fault-free run of the same
/// project terminated normally within REF_TICK_LIMIT evaluation ticks.
fn judge(spec: &JobSpec, r: &JobResult, ref_ok: bool) -> (Option<(String, String)>, &'static str) {
    let corrupts = spec.label == CORRUPTED_ENTRY_TEXT || spec.faults.iter().enumerate().any(|(i, f)| f.corrupts_text() && r.fired.get(i).copied().unwrap_or(false));
    if let Some(l) = &r.stdio_leak {
        return (Some(("stdio-leak".into(), format!("the library wrote to the process's stdout/stderr: {:?}", l.chars().take(200).collect::<String>()))), "violation");
    }
    match &r.outcome {
        Outcome::Ok(_) => {
            // a failed read may not be swallowed: either an error, or a later successful read of the same path
            for ev in &r.fs {
                if ev.op == FsOp::Read && ev.faulted && ev.result.starts_with("err:") {
                    let retried = r.fs.iter().any(|e2| e2.k > ev.k && e2.op == FsOp::Read && e2.norm == ev.norm && e2.result.starts_with("ok:"));
                    if !retried {
                        return (Some(("swallowed-read-error".into(), format!("read of {} failed ({}) but the compilation returned Ok", ev.path, ev.result))), "violation");
                    }
                }
            }
            (None, "ok")
        }
        Outcome::Err(_) => (None, "err"),
        Outcome::Panic { loc, msg } => (Some((format!("panic@{}", loc), format!("panicked at {}: {}", loc, msg))), "violation"),
        Outcome::Hang { kind, site } => {
            if kind == "lexer" {
                (Some((format!("hang(lexer)@{}", site), format!("parser loop: one Lexer exceeded its input-proportional budget of 4096*(len+64) operations in {}", site))), "violation")
            } else if kind == "paths" {
                // the stylesheet has no loop of its own inside one cartesian product: a verdict for any text
                (Some((format!("hang(paths)@{}", site), format!("the extension algorithm built more than {} paths ({}) while the stylesheet itself had executed fewer than 10^5 statements: combinatorial blow-up, the compilation would run for minutes and exhaust memory", crate::job::PATHS_FUEL, site))), "violation")
            } else if kind == "fs-retry" {
                (Some(("hang(fs-retry)".into(), "a read that fails every time was retried more than 10 000 times: a retry loop that never gives up".into())), "violation")
            } else if kind == "fs-ops" && !corrupts && ref_ok {
                (Some(("hang(fs-ops)".into(), format!("more than {} Fs operations in one compilation of intact text whose fault-free run made {}: a file search that does not end", crate::simfs::FS_OPS_FUEL, "a few hundred at most"))), "violation")
            } else if kind == "depth" {
                // only ever armed for corrupted text
                (None, "inconclusive")
            } else if !corrupts && ref_ok {
                (Some(("hang(eval)".into(), format!("evaluation of intact text exceeded {} ticks although the fault-free run of the same project used < {}", spec.eval_fuel, REF_TICK_LIMIT))), "violation")
            } else {
                (None, "inconclusive")
            }
        }
    }
}

fn describe(spec: &JobSpec, r: &JobResult) -> String {
    let faults: Vec<String> = spec.faults.iter().map(|f| f.to_json().to_string().chars().take(160).collect()).collect();
    let entry = match &spec.entry {
        Entry::Path(p) => p.clone(),
        Entry::Text(_) => "<text>".into(),
    };
    format!("entry={} files={} faults=[{}] outcome={}", entry, spec.files.len(), faults.join(", "), r.outcome.brief())
}

struct UnitRun<'a> {
    res: UnitResult,
    idx: u64,
    progress: Progress<'a>,
    project_hash: u64,
}

impl<'a> UnitRun<'a> {
    /// Run one faulted case and judge it.
    fn case(&mut self, spec: &JobSpec, ref_ok: bool) -> Option<JobResult> {
        let idx = self.idx;
        self.idx += 1;
        let mut spec = spec.clone();
        if spec.label == CORRUPTED_ENTRY_TEXT || spec.faults.iter().any(|f| f.corrupts_text()) {
            spec.depth_limit = CORRUPTED_TEXT_DEPTH;
            spec.eval_fuel = CORRUPTED_TEXT_FUEL;
        } else if spec.files.len() > 1 && spec.depth_limit == 0 {
            // a generated multi-file project can import itself (an index file whose body is the
            // corpus item `@import "foo/.."`): unbounded recursion of the project's own making,
            // which the property leaves out. It ends as `inconclusive`, not as a stack overflow.
            spec.depth_limit = CORRUPTED_TEXT_DEPTH;
        }
        let spec = &spec;
        let s2 = spec.clone();
        if !(self.progress)(idx, &move || json!({"job": s2.to_json()})) {
            self.res.bump("skipped_after_crash", 1);
            return None;
        }
        let r = run_job(spec);
        self.res.fold_job(&r);
        self.res.bump("evaluations", 1);
        if spec.faults.is_empty() {
            self.res.bump("fault_free_runs", 1);
        } else {
            self.res.bump("faulted_runs", 1);
        }
        let mut any_fired = false;
        for (i, f) in spec.faults.iter().enumerate() {
            self.res.bump(&format!("configured.{}", f.kind()), 1);
            if r.fired.get(i).copied().unwrap_or(false) {
                any_fired = true;
                self.res.bump(&format!("fired.{}", f.kind()), 1);
                let at = match f {
                    Fault::ReadErr { at, .. } | Fault::CanonErr { at } | Fault::Vanish { at, .. } | Fault::Stall { at, .. } | Fault::Appear { at, .. } => *at as u64,
                    Fault::Content { .. } | Fault::ReadErrAlways { .. } | Fault::StatLies { .. } | Fault::CanonOdd { .. } => u64::MAX,
                };
                if at != u64::MAX {
                    self.res.set_add("op_fault_pairs", mix(at, mix_str(1, &f.kind())));
                }
            }
        }
        if any_fired {
            self.res.distinct.push(mix(self.project_hash, hash_bytes(3, json!(spec.faults.iter().map(|f| f.to_json()).collect::<Vec<_>>()).to_string().as_bytes())));
        }
        let (viol, tag) = judge(spec, &r, ref_ok);
        self.res.bump(&format!("outcome.{}", tag), 1);
        if let Outcome::Err(e) = &r.outcome {
            self.res.bump(&format!("errkind.{}", e.kind), 1);
            if e.kind == "parse" && !e.file.starts_with("main.") && !e.file.starts_with("/w/main.") && e.file != "stdin" {
                self.res.bump("probe.error_located_in_imported_file", 1);
            }
            if e.kind == "utf8" {
                self.res.bump("probe.utf8_error_surfaced", 1);
            }
            if e.kind == "io" {
                self.res.bump("probe.io_error_surfaced", 1);
            }
        }
        if let Some((class, detail)) = viol {
            self.res.violations.push(Violation { property: "C01".into(), class, detail: format!("{}\n{}", detail, describe(spec, &r)), case: json!({"job": spec.to_json()}) });
        }
        if self.res.samples.len() < 3 && any_fired {
            self.res.samples.push(json!({"entry": format!("{:?}", spec.entry), "files": spec.files.iter().map(|(p, b)| json!({"path": p, "len": b.len()})).collect::<Vec<_>>(),
                "faults": spec.faults.iter().map(|f| f.to_json()).collect::<Vec<_>>(), "outcome": r.outcome.brief().chars().take(160).collect::<String>(), "fs_ops": r.fs.len()}));
        }
        Some(r)
    }
}

fn char_boundaries(b: &[u8]) -> Vec<usize> {
    match std::str::from_utf8(b) {
        Ok(s) => s.char_indices().map(|(i, _)| i).collect(),
        Err(_) => (0..b.len()).collect(),
    }
}

/// Positions at which a file is torn. `full`: every byte offset.
fn torn_positions(rng: &mut Rng, b: &[u8], full: bool) -> Vec<usize> {
    let n = b.len();
    if full || n <= 256 {
        // every offset, including those inside multi-byte characters
        return (0..n).collect();
    }
    let mut out = vec![0];
    let cb = char_boundaries(b);
    for &i in &cb {
        let c = b[i];
        if b"{}()\"'#/*@;:,".contains(&c) || c >= 0x80 {
            out.push(i);
            if i + 1 < n {
                out.push(i + 1);
            }
        }
    }
    for _ in 0..64 {
        out.push(rng.usize_below(n));
    }
    out.sort();
    out.dedup();
    out
}

fn content_faults(rng: &mut Rng, path: &str, b: &[u8], full: bool, other: &[u8]) -> Vec<Fault> {
    let mut out = vec![];
    let mk = |w: ContentFault| Fault::Content { path: path.to_string(), what: w };
    for n in torn_positions(rng, b, full) {
        out.push(mk(ContentFault::Torn(n)));
    }
    if b.is_empty() {
        return out;
    }
    out.push(mk(ContentFault::Zeroed));
    for _ in 0..3 {
        out.push(mk(ContentFault::ZeroTail(rng.usize_below(b.len()))));
    }
    let nflip = if full { 24 } else { 8 };
    for _ in 0..nflip {
        out.push(mk(ContentFault::BitFlip(rng.usize_below(b.len()), rng.below(8) as u8)));
    }
    // bytes that make the text invalid UTF-8: lone continuation, truncated lead, 0xFF
    for byte in [0x80u8, 0xC3, 0xFF, 0xE2, 0x00] {
        out.push(mk(ContentFault::SetByte(rng.usize_below(b.len()), byte)));
    }
    // typographic look-alikes at seeded positions that have one
    let spots: Vec<usize> = (0..b.len()).filter(|&i| crate::case::confusable_of(b[i]).is_some()).collect();
    if !spots.is_empty() {
        for _ in 0..(if full { 16 } else { 6 }) {
            out.push(mk(ContentFault::Confusable(*rng.pick(&spots))));
        }
    }
    out.push(mk(ContentFault::SetByte(0, 0xFF)));
    out.push(mk(ContentFault::SetByte(b.len() - 1, 0xC3)));
    if other.len() > b.len() {
        out.push(mk(ContentFault::StaleTail(other.to_vec())));
    }
    out
}

/// Corpus items whose every single-bit flip is enumerated (quick: the short ones).
fn flip_items(ctx: &Ctx) -> Vec<usize> {
    let max = if ctx.tier == "thorough" { 400 } else { 48 };
    (0..ctx.corpus.len()).filter(|&i| { let n = ctx.corpus[i].input.len(); n > 0 && n <= max }).collect()
}

impl FsFault {
    /// Every single-bit flip of one short corpus item, delivered as the entry
    /// file under its native extension (storage / transfer corruption).
    fn flip_unit(&self, ctx: &Ctx, unit: u64, progress: Progress) -> UnitResult {
        let items = flip_items(ctx);
        let item = &ctx.corpus[items[unit as usize % items.len()]];
        let mut ur = UnitRun { res: UnitResult::default(), idx: 0, progress, project_hash: hash_bytes(17, item.input.as_bytes()) };
        ur.res.bump("flip_items", 1);
        let ext = item.native_syntax();
        let target = format!("/w/x.{}", ext);
        let mut spec = JobSpec::default();
        spec.files = vec![(target.clone(), item.input.clone().into_bytes())];
        spec.entry = Entry::Path(format!("x.{}", ext));
        spec.compressed = unit % 2 == 1;
        let r0 = match ur.case(&spec, true) {
            Some(r) => r,
            None => return ur.res,
        };
        let ref_ok = matches!(r0.outcome, Outcome::Ok(_) | Outcome::Err(_)) && r0.eval_ticks < REF_TICK_LIMIT;
        for i in 0..item.input.len() {
            for b in 0..8u8 {
                let mut s2 = spec.clone();
                s2.faults = vec![Fault::Content { path: target.clone(), what: ContentFault::BitFlip(i, b) }];
                ur.case(&s2, ref_ok);
            }
            if crate::case::confusable_of(item.input.as_bytes()[i]).is_some() {
                let mut s2 = spec.clone();
                s2.faults = vec![Fault::Content { path: target.clone(), what: ContentFault::Confusable(i) }];
                ur.case(&s2, ref_ok);
            }
        }
        ur.res
    }

    fn project_unit(&self, ctx: &Ctx, unit: u64, progress: Progress) -> UnitResult {
        let mut rng = Rng::new(mix(mix_str(ctx.seed, "fsfault-project"), unit));
        let pools = Pools::new(&ctx.corpus, true);
        let base = gen_project(&mut rng, &ctx.corpus, &pools, &GenOpts { max_deps: 5, allow_random: true });
        let ph = hash_bytes(5, base.to_json().to_string().as_bytes());
        let mut ur = UnitRun { res: UnitResult::default(), idx: 0, progress, project_hash: ph };
        ur.res.bump("projects", 1);
        // fault-free reference
        let r0 = match ur.case(&base, true) {
            Some(r) => r,
            None => return ur.res,
        };
        let ref_ok = matches!(r0.outcome, Outcome::Ok(_) | Outcome::Err(_)) && r0.eval_ticks < REF_TICK_LIMIT;
        if !ref_ok {
            ur.res.bump("projects_with_long_or_failing_reference", 1);
        }
        if r0.fs.iter().filter(|e| e.op == FsOp::Read).count() >= 2 {
            ur.res.bump("probe.reference_reads_an_imported_file", 1);
        }
        let full = ctx.tier == "thorough";
        let mut plans: Vec<Vec<Fault>> = vec![];
        // every operation index x every applicable error kind
        for ev in &r0.fs {
            match ev.op {
                FsOp::Read => {
                    for k in IO_KINDS {
                        plans.push(vec![Fault::ReadErr { at: ev.k, kind: k }]);
                        // the same error, but one that does not go away
                        plans.push(vec![Fault::ReadErrAlways { path: ev.path.clone(), kind: k }]);
                    }
                    // the same failure with an unusual error *text*
                    for k in crate::case::IO_TEXT_KINDS {
                        plans.push(vec![Fault::ReadErr { at: ev.k, kind: k }]);
                    }
                    plans.push(vec![Fault::Vanish { at: ev.k, target: None }]);
                }
                FsOp::Canon => {
                    plans.push(vec![Fault::CanonErr { at: ev.k }]);
                    plans.push(vec![Fault::Vanish { at: ev.k, target: None }]);
                }
                FsOp::IsFile => {
                    if ev.result == "true" {
                        plans.push(vec![Fault::Vanish { at: ev.k, target: None }]);
                        // TOCTOU: is_file says yes, then the file is gone before the next op
                        plans.push(vec![Fault::Vanish { at: ev.k + 1, target: Some(ev.path.clone()) }]);
                    }
                }
                FsOp::IsDir => {}
            }
        }
        // content faults per file that the reference actually read
        let read_paths: Vec<String> = r0.fs.iter().filter(|e| e.op == FsOp::Read).map(|e| e.norm.clone()).collect();
        for (p, b) in &base.files {
            if !read_paths.contains(p) {
                continue;
            }
            let other = ctx.corpus[rng.usize_below(ctx.corpus.len())].input.clone();
            for f in content_faults(&mut rng, p, b, full, other.as_bytes()) {
                plans.push(vec![f]);
            }
        }
        // an `Fs` that is not a POSIX disk: existence tests and canonicalize answer unusually but
        // legally (a flat object store where every prefix is a directory, a store that says yes
        // to every is_file and lets the read decide, canonical names that are relative, empty,
        // not UTF-8, or spelled differently on every call)
        for m in ["dir_always", "file_always", "dir_is_file"] {
            plans.push(vec![Fault::StatLies { mode: m.into() }]);
        }
        for m in ["relative", "empty", "fresh", "nonutf8"] {
            plans.push(vec![Fault::CanonOdd { mode: m.into() }]);
        }
        plans.push(vec![Fault::StatLies { mode: "dir_always".into() }, Fault::CanonOdd { mode: "fresh".into() }]);
        // the directory probes of the search are only reached by a load that finds nothing next to
        // the importing file: the same lies with one loaded file gone
        for p in read_paths.iter().skip(1) {
            plans.push(vec![Fault::StatLies { mode: "dir_always".into() }, Fault::Vanish { at: 0, target: Some(p.clone()) }]);
        }
        // a 10 % tail of two-fault runs
        let n1 = plans.len();
        if n1 >= 2 {
            for _ in 0..(n1 / 10).max(1) {
                let a = plans[rng.usize_below(n1)][0].clone();
                let b = plans[rng.usize_below(n1)][0].clone();
                if a != b {
                    plans.push(vec![a, b]);
                    ur.res.bump("probe.two_fault_runs", 1);
                }
            }
        }
        for faults in plans {
            let mut s = base.clone();
            s.faults = faults;
            ur.case(&s, ref_ok);
        }
        ur.res
    }

    /// A file that is loaded twice in one compilation and is rewritten between the two
    /// reads (an editor or build tool saving it): the second read delivers a shorter, torn,
    /// flipped or altogether different text.
    fn rewrite_between_reads(&self, ctx: &Ctx, rng: &mut Rng, ur: &mut UnitRun, text: &str, ext: &str) {
        let first = if rng.chance(0.5) { format!("/* café crème — 説明 */\n{}", text) } else { text.to_string() };
        let first = if ext == "sass" { first.replace("/* café crème — 説明 */\n", "// café crème — 説明\n") } else { first };
        let main = match rng.below(3) {
            0 => "@import \"x\";\n@import \"x\";\n".to_string(),
            1 => "@use \"x\";\n@use \"fw\";\n".to_string(),
            _ => "@use \"sass:meta\";\n@include meta.load-css(\"x\");\n@include meta.load-css(\"x\");\n".to_string(),
        };
        let target = format!("/w/x.{}", ext);
        let mut spec = JobSpec::default();
        spec.files = vec![("/w/main.scss".into(), main.into_bytes()), (target.clone(), first.clone().into_bytes()), ("/w/_fw.scss".into(), b"@forward \"x\";\n".to_vec())];
        spec.entry = Entry::Path("main.scss".into());
        spec.unicode = rng.chance(0.5);
        ur.project_hash = mix(hash_bytes(19, first.as_bytes()), mix_str(4, ext));
        let r0 = match ur.case(&spec, true) {
            Some(r) => r,
            None => return,
        };
        // op index of the second read of the target
        let reads: Vec<usize> = r0.fs.iter().filter(|e| e.op == FsOp::Read && e.norm == target).map(|e| e.k).collect();
        if reads.len() < 2 {
            return;
        }
        ur.res.bump("probe.file_read_twice_in_one_compilation", 1);
        let b = first.as_bytes();
        let mut versions: Vec<Vec<u8>> = vec![];
        let step = (b.len() / 40).max(1);
        let mut n = 0;
        while n < b.len() {
            versions.push(b[..n].to_vec());
            n += step;
        }
        for _ in 0..6 {
            versions.push(crate::simfs::apply_content_fault(b, &ContentFault::BitFlip(rng.usize_below(b.len().max(1)), rng.below(8) as u8)));
        }
        let other = ctx.corpus[rng.usize_below(ctx.corpus.len())].input.clone();
        versions.push(other.into_bytes());
        versions.push(text.as_bytes().to_vec());
        for v in versions {
            let mut s2 = spec.clone();
            s2.faults = vec![Fault::Appear { at: reads[1], path: target.clone(), bytes: v }];
            ur.case(&s2, false);
        }
    }

    /// One corpus item, as entry and as imported file, under all three
    /// extensions, torn at every offset (quick: stratified for long files).
    fn sweep_unit(&self, ctx: &Ctx, unit: u64, progress: Progress) -> UnitResult {
        let mut rng = Rng::new(mix(mix_str(ctx.seed, "fsfault-sweep"), unit));
        let item_idx = if ctx.tier == "thorough" { unit as usize } else { rng.usize_below(ctx.corpus.len()) };
        let item = &ctx.corpus[item_idx % ctx.corpus.len()];
        let mut ur = UnitRun { res: UnitResult::default(), idx: 0, progress, project_hash: hash_bytes(9, item.input.as_bytes()) };
        ur.res.bump("sweep_items", 1);
        let full = ctx.tier == "thorough";
        let texts: Vec<&String> = match &item.expected {
            Some(e) if !item.is_error && rng.chance(0.3) => vec![&item.input, e],
            _ => vec![&item.input],
        };
        // a byte-order mark in front (editors on other platforms add one), also in front of nothing
        let bom_text;
        let mut texts = texts;
        if rng.chance(0.12) {
            bom_text = if rng.chance(0.2) { "\u{feff}".to_string() } else { format!("{}{}", '\u{feff}', item.input) };
            texts.push(&bom_text);
        }
        {
            let ext = *rng.pick(&["scss", "scss", "sass", "css"]);
            let t0 = texts[0].clone();
            if t0.len() <= 2048 {
                self.rewrite_between_reads(ctx, &mut rng, &mut ur, &t0, ext);
            }
        }
        for text in texts {
            if text.len() > 4096 {
                continue;
            }
            for ext in ["scss", "sass", "css"] {
                // (a) as entry through from_path, (b) through a load directive of a scss entry
                let via = *rng.pick(&["entry", "entry", "import", "use", "forward", "load-css", "string"]);
                let mut spec = JobSpec::default();
                spec.compressed = rng.chance(0.4);
                spec.quiet = rng.chance(0.5);
                spec.unicode = rng.chance(0.6);
                spec.charset = rng.chance(0.6);
                let target;
                if via == "string" {
                    // from_string with an explicit input syntax: the text arrives corrupted
                    // (e.g. piped through a flaky transport); only corruptions that are still
                    // valid UTF-8 can be delivered as a String
                    target = "/w/unused".to_string();
                    spec.entry = Entry::Text(text.clone());
                    spec.input_syntax = Some(ext.to_string());
                    ur.project_hash = mix(hash_bytes(9, text.as_bytes()), mix_str(2, &format!("{}string", ext)));
                    let r0 = match ur.case(&spec, true) {
                        Some(r) => r,
                        None => continue,
                    };
                    let _ = r0;
                    let other = ctx.corpus[rng.usize_below(ctx.corpus.len())].input.clone();
                    let mut faults = content_faults(&mut rng, &target, text.as_bytes(), full, other.as_bytes());
                    if !full && faults.len() > 160 {
                        rng.shuffle(&mut faults);
                        faults.truncate(160);
                    }
                    for f in faults {
                        if let Fault::Content { what, .. } = &f {
                            if let Ok(t) = String::from_utf8(crate::simfs::apply_content_fault(text.as_bytes(), what)) {
                                let mut s = spec.clone();
                                s.entry = Entry::Text(t);
                                s.label = CORRUPTED_ENTRY_TEXT.to_string();
                                ur.res.bump(&format!("fired.{}", what.kind()), 1);
                                ur.res.bump("string_entry_runs", 1);
                                ur.case(&s, false);
                            }
                        }
                    }
                    continue;
                }
                if via == "entry" {
                    target = format!("/w/x.{}", ext);
                    spec.files = vec![(target.clone(), text.clone().into_bytes())];
                    spec.entry = Entry::Path(format!("x.{}", ext));
                } else {
                    target = format!("/w/x.{}", ext);
                    let main = match via {
                        "import" => "@import \"x\";\n".to_string(),
                        "use" => "@use \"x\";\n".to_string(),
                        "forward" => "@forward \"x\";\n".to_string(),
                        _ => "@use \"sass:meta\";\n@include meta.load-css(\"x\");\n".to_string(),
                    };
                    spec.files = vec![("/w/main.scss".into(), main.into_bytes()), (target.clone(), text.clone().into_bytes())];
                    spec.entry = Entry::Path("main.scss".into());
                }
                ur.project_hash = mix(hash_bytes(9, text.as_bytes()), mix_str(2, &format!("{}{}", ext, via)));
                let r0 = match ur.case(&spec, true) {
                    Some(r) => r,
                    None => continue,
                };
                let ref_ok = matches!(r0.outcome, Outcome::Ok(_) | Outcome::Err(_)) && r0.eval_ticks < REF_TICK_LIMIT;
                let other = ctx.corpus[rng.usize_below(ctx.corpus.len())].input.clone();
                let b = text.as_bytes();
                let mut faults = content_faults(&mut rng, &target, b, full, other.as_bytes());
                if !full {
                    // quick tier: cap the work per (item, ext)
                    if faults.len() > 160 {
                        rng.shuffle(&mut faults);
                        faults.truncate(160);
                    }
                }
                for f in faults {
                    let mut s = spec.clone();
                    s.faults = vec![f];
                    ur.case(&s, ref_ok);
                }
            }
        }
        ur.res
    }
}

impl Engine for FsFault {
    fn name(&self) -> &'static str {
        "fsfault"
    }
    fn property(&self) -> &'static str {
        "C01"
    }
    fn level(&self) -> &'static str {
        "fault_enumeration"
    }
    fn units(&self, ctx: &Ctx) -> u64 {
        n_project_units(&ctx.tier) + n_sweep_units(ctx) + flip_items(ctx).len() as u64
    }
    fn stack_bytes(&self) -> usize {
        // generous, so that the depth limit above always fires first on corrupted text
        64 << 20
    }
    fn run_unit(&self, ctx: &Ctx, unit: u64, progress: Progress) -> UnitResult {
        let np = n_project_units(&ctx.tier);
        // interleave so that a time-boxed run sees both kinds
        let ns = n_sweep_units(ctx);
        if unit < np {
            self.project_unit(ctx, unit, progress)
        } else if unit < np + ns {
            self.sweep_unit(ctx, unit - np, progress)
        } else {
            self.flip_unit(ctx, unit - np - ns, progress)
        }
    }
    fn exec(&self, _ctx: &Ctx, case: &Value) -> Vec<Violation> {
        let spec = match case.get("job").and_then(JobSpec::from_json) {
            Some(s) => s,
            None => return vec![Violation { property: "C01".into(), class: "bad-case".into(), detail: "unparsable case".into(), case: case.clone() }],
        };
        // reference: same job without faults
        let mut base = spec.clone();
        base.faults.clear();
        if spec.faults.iter().any(|f| f.corrupts_text()) {
            // a minimised case may carry the corruption in the file itself
            base.depth_limit = CORRUPTED_TEXT_DEPTH;
        } else if base.files.len() > 1 && base.depth_limit == 0 {
            base.depth_limit = CORRUPTED_TEXT_DEPTH;
        }
        let mut ref_ok = true;
        if !spec.faults.is_empty() {
            let r0 = run_job(&base);
            ref_ok = matches!(r0.outcome, Outcome::Ok(_) | Outcome::Err(_)) && r0.eval_ticks < REF_TICK_LIMIT;
        }
        let mut spec = spec;
        if spec.label == CORRUPTED_ENTRY_TEXT || spec.faults.iter().any(|f| f.corrupts_text()) {
            spec.depth_limit = CORRUPTED_TEXT_DEPTH;
            spec.eval_fuel = CORRUPTED_TEXT_FUEL;
        } else if spec.files.len() > 1 && spec.depth_limit == 0 {
            spec.depth_limit = CORRUPTED_TEXT_DEPTH; // self-importing project: see `case`
        }
        let r = run_job(&spec);
        match judge(&spec, &r, ref_ok).0 {
            Some((class, detail)) => vec![Violation { property: "C01".into(), class, detail: format!("{}\n{}", detail, describe(&spec, &r)), case: case.clone() }],
            None => vec![],
        }
    }
    fn shrink(&self, case: &Value) -> Vec<Value> {
        match case.get("job").and_then(JobSpec::from_json) {
            Some(s) => crate::shrink::shrink_job(&s).into_iter().map(|j| json!({"job": j.to_json()})).collect(),
            None => vec![],
        }
    }
    fn rule(&self) -> String {
        "workloads are seeded: multi-file projects (entry + 1..5 files reached through @import/@use/@forward/meta.load-css, three syntaxes, bodies from the pinned suite's inputs and outputs) and single corpus items under each extension, as entry and as loaded file. Per workload the fault position is enumerated: every Fs operation index of the fault-free run x every applicable error kind (read_err x5 once and persistently, read_err with an unusual error text x5 [hundreds of bytes of multi-byte characters at three alignments, empty, several lines], canon_err, vanish, vanish-after-is_file), and per delivered file torn(n) for every byte offset n (stratified for files > 256 B in the quick tier), zeroed, zero_tail, bitflip, invalid-UTF-8 byte, stale_tail; plus a 10% tail of two-fault runs; per sweep item one scenario in which a file loaded twice is rewritten between the two reads (shorter, torn, flipped or different text on the second read). In addition every single-bit flip and every typographic look-alike substitution (no-break space, en dash, curly quotes, …) of every corpus item of at most 48 bytes (thorough: 400 bytes) is delivered as an entry file. A case is non-trivial iff its fault actually fired (the call happened and was altered); distinct = distinct (workload hash, fault list) among those.".into()
    }
    fn assumptions(&self) -> Vec<String> {
        vec![
            "library built from the working tree with the shipped release semantics except panic=unwind (a panic is a violation either way)".into(),
            "parser loops are decided by hook H2 (per-Lexer budget 4096*(len+64) operations); evaluation fuel (H3, 1e7 ticks) is a verdict only for intact text whose fault-free run used < 1e5 ticks".into(),
            "SimFs is a stub for the real file system; StdFs itself is not exercised by this engine".into(),
            "this is the fault-reachable slice of C01 only: arbitrary input strings are not generated (input generation is not simulation)".into(),
        ]
    }
    fn extra_evidence(&self, stats: &BTreeMap<String, u64>) -> Value {
        let mut fired = serde_json::Map::new();
        for (k, v) in stats {
            if let Some(kind) = k.strip_prefix("fired.") {
                fired.insert(kind.to_string(), json!(v));
            }
        }
        json!({
            "faults_fired_by_kind": fired,
            "fault_free_runs": stats.get("fault_free_runs").copied().unwrap_or(0),
            "faulted_runs": stats.get("faulted_runs").copied().unwrap_or(0),
            "inconclusive_long_running_on_corrupted_text": stats.get("outcome.inconclusive").copied().unwrap_or(0),
            "simulated_time": "not applicable: grass has no clock; this engine is single-threaded per compilation",
            "real_vs_stub": {"real": ["lexer", "parsers", "evaluator", "serializer", "error rendering", "interner"], "stub": ["Fs (SimFs)", "Logger (recorder)"]},
        })
    }
}
