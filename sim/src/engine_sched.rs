//! C02: a result is a pure function of source, options and visible files.
//!
//! System: 1-4 simulated client threads (real OS threads under the
//! token-passing scheduler), each executing a list of jobs — its compile
//! history. Environment per run: scheduling policy and decisions, per-thread
//! hash keys and entropy, heap layout, Fs faults in some jobs, fuel-exhausted
//! (panicking) jobs in the history. Oracle: every job's outcome bytes and
//! logger history equal those of the same job run alone on a fresh thread.
//! Every run executes in a process forked from the worker for that run alone,
//! on a deterministic heap (detalloc), so that a failure replays exactly.

use std::collections::BTreeMap;
use std::sync::{Arc, Mutex};

use serde_json::{json, Value};

use crate::case::{CanonMode, Entry, Fault, IoKind, JobSpec};
use crate::engine::{Ctx, Engine, Progress, UnitResult, Violation};
use crate::gen_project::{gen_project, GenOpts, Pools};
use crate::job::{run_job, JobResult, Outcome};
use crate::prng::{hash_bytes, mix, mix_str, Rng};
use crate::sched::{Policy, Sched, SchedStats, Switch, KIND_NAMES};

pub struct SchedEngine;

/// Stack of a simulated thread (address space only; pages are touched as used). Together with
/// `JOB_DEPTH_LIMIT` it lets a generated project that imports itself (an index file whose body
/// is the corpus item `@import "foo/.."`) end as the same deterministic `depth` outcome in
/// reference and run, instead of a stack overflow that kills the run process: unbounded
/// recursion of the stylesheet's own making is outside the property.
const SIM_STACK: usize = 256 << 20;
const JOB_DEPTH_LIMIT: u32 = 500;

pub const REF_KEY: u64 = 0x5EED_0F_7E_F0_0D;
pub const PROC_REF_KEY: u64 = 0x0DDB_A11_5EED_77;

#[derive(Clone, Debug, PartialEq)]
pub struct SimThread {
    pub entropy: u64,
    pub heap_shift: usize,
    pub jobs: Vec<JobSpec>,
    /// the thread keeps one Fs object, one Logger object and one `Options` value per distinct
    /// option setting for all of its jobs (a caller that builds its Options once); the
    /// references are always computed with objects of their own
    pub reuse: bool,
}

#[derive(Clone, Debug, PartialEq)]
pub struct SchedCase {
    pub threads: Vec<SimThread>,
    pub policy: Policy,
    pub sched_seed: u64,
    pub switches: Vec<Switch>,
    /// install the H1 callback (scheduling points on interner and counters)
    pub h1: bool,
    /// "" | "uid"
    pub kind: String,
    /// (thread, job) pairs whose reference is ALSO computed in a process of its own,
    /// forked from the worker before anything was compiled in it: that reference is the
    /// first compilation of its process, which the in-process references are not
    pub proc_refs: Vec<(usize, usize)>,
}

fn switches_json(sw: &[Switch]) -> Value {
    json!(sw.iter().map(|s| json!([if s.from == usize::MAX { -1i64 } else { s.from as i64 }, s.ordinal, s.to, s.kind])).collect::<Vec<_>>())
}

fn policy_to_json(p: &Policy) -> Value {
    match p {
        Policy::Serial => json!("serial"),
        Policy::Random(x) => json!({"random": x}),
        Policy::Pct { d, horizon } => json!({"pct": d, "horizon": horizon}),
        Policy::Latency => json!("latency"),
        Policy::Replay => json!("replay"),
    }
}

fn policy_from_json(v: &Value) -> Policy {
    match v {
        Value::String(s) if s == "serial" => Policy::Serial,
        Value::String(s) if s == "latency" => Policy::Latency,
        Value::Object(o) if o.contains_key("random") => Policy::Random(o["random"].as_f64().unwrap_or(0.1)),
        Value::Object(o) if o.contains_key("pct") => Policy::Pct { d: o["pct"].as_u64().unwrap_or(1) as usize, horizon: o.get("horizon").and_then(|h| h.as_u64()).unwrap_or(2000) },
        _ => Policy::Replay,
    }
}

impl SchedCase {
    pub fn to_json(&self) -> Value {
        json!({
            "kind": self.kind,
            "threads": self.threads.iter().map(|t| json!({"entropy": t.entropy, "heap_shift": t.heap_shift, "reuse": t.reuse, "jobs": t.jobs.iter().map(|j| j.to_json()).collect::<Vec<_>>()})).collect::<Vec<_>>(),
            "policy": policy_to_json(&self.policy),
            "sched_seed": self.sched_seed,
            "switches": switches_json(&self.switches),
            "h1": self.h1,
            "proc_refs": self.proc_refs.iter().map(|(a, b)| json!([a, b])).collect::<Vec<_>>(),
        })
    }
    pub fn from_json(v: &Value) -> Option<SchedCase> {
        let mut threads = vec![];
        for t in v.get("threads")?.as_array()? {
            let mut jobs = vec![];
            for j in t.get("jobs")?.as_array()? {
                jobs.push(JobSpec::from_json(j)?);
            }
            threads.push(SimThread { entropy: t.get("entropy")?.as_u64()?, heap_shift: t.get("heap_shift").and_then(|h| h.as_u64()).unwrap_or(0) as usize, jobs, reuse: t.get("reuse").and_then(|h| h.as_bool()).unwrap_or(false) });
        }
        let mut switches = vec![];
        for s in v.get("switches").and_then(|s| s.as_array()).cloned().unwrap_or_default() {
            let from = s.get(0)?.as_i64()?;
            let kind_s = s.get(3).and_then(|k| k.as_str()).unwrap_or("");
            let kind = KIND_NAMES.iter().copied().find(|k| *k == kind_s).unwrap_or(if kind_s == "start" { "start" } else { "replayed" });
            switches.push(Switch { from: if from < 0 { usize::MAX } else { from as usize }, ordinal: s.get(1)?.as_u64()?, to: s.get(2)?.as_u64()? as usize, kind });
        }
        Some(SchedCase {
            threads,
            policy: policy_from_json(v.get("policy").unwrap_or(&Value::Null)),
            sched_seed: v.get("sched_seed").and_then(|s| s.as_u64()).unwrap_or(0),
            switches,
            h1: v.get("h1").and_then(|s| s.as_bool()).unwrap_or(true),
            kind: v.get("kind").and_then(|s| s.as_str()).unwrap_or("").to_string(),
            proc_refs: v.get("proc_refs").and_then(|a| a.as_array()).map(|a| a.iter().filter_map(|p| Some((p.get(0)?.as_u64()? as usize, p.get(1)?.as_u64()? as usize))).collect()).unwrap_or_default(),
        })
    }
}

// ---------------------------------------------------------------- execution (in the forked child)

#[derive(Clone, Debug)]
struct Obs {
    observable: String,
    log: Vec<(String, String, usize, usize, String)>,
    marks: Vec<String>,
    foreign_log: bool,
    stdio: bool,
    ticks: u64,
    max_depth: u32,
    clock_reads: u64,
}

fn obs_of(r: &JobResult, my_tid: usize) -> Obs {
    Obs {
        observable: r.outcome.observable(),
        log: r.log.iter().map(|e| (e.kind.to_string(), e.file.clone(), e.line, e.col, e.msg.clone())).collect(),
        marks: r.marks.clone(),
        foreign_log: r.log.iter().any(|e| e.thread != my_tid),
        stdio: r.stdio_leak.is_some(),
        ticks: r.eval_ticks,
        max_depth: r.max_depth,
        clock_reads: r.clock_reads,
    }
}

fn first_diff(a: &str, b: &str) -> String {
    let la: Vec<&str> = a.lines().collect();
    let lb: Vec<&str> = b.lines().collect();
    for i in 0..la.len().max(lb.len()) {
        let x = la.get(i).copied().unwrap_or("<end>");
        let y = lb.get(i).copied().unwrap_or("<end>");
        if x != y {
            return format!("line {}: reference {:?} vs observed {:?}", i + 1, x.chars().take(200).collect::<String>(), y.chars().take(200).collect::<String>());
        }
    }
    "identical?".into()
}

fn compare(reference: &Obs, obs: &Obs) -> Option<(String, String)> {
    if obs.foreign_log {
        return Some(("cross-delivery".into(), "a job's Logger received an event from another thread".into()));
    }
    if obs.stdio {
        return Some(("stdio-leak".into(), "wrote to stdout/stderr".into()));
    }
    if reference.observable != obs.observable {
        let kind = |s: &str| s.split('\n').next().unwrap_or("").split(' ').next().unwrap_or("").to_string();
        let (kr, ko) = (kind(&reference.observable), kind(&obs.observable));
        let what = if kr != ko { "kind" } else if kr == "OK" { "output" } else { "error" };
        return Some((format!("diverge({})", what), first_diff(&reference.observable, &obs.observable)));
    }
    if reference.log != obs.log {
        let n = reference.log.iter().zip(obs.log.iter()).take_while(|(a, b)| a == b).count();
        return Some(("diverge(log)".into(), format!("logger histories differ at event {}: reference {:?} vs observed {:?} (lengths {} / {})", n, reference.log.get(n), obs.log.get(n), reference.log.len(), obs.log.len())));
    }
    if reference.marks != obs.marks {
        return Some(("diverge(marks)".into(), "sim-mark histories differ".into()));
    }
    None
}

fn run_reference(job: &JobSpec, key: u64) -> Obs {
    let j = job.clone();
    std::thread::Builder::new()
        .stack_size(SIM_STACK)
        .spawn(move || {
            crate::seams::set_thread_entropy(Some(key));
            crate::detalloc::set_region(1, 0);
            let r = run_job(&j);
            obs_of(&r, usize::MAX)
        })
        .unwrap()
        .join()
        .unwrap()
}

pub struct ExecOut {
    pub violations: Vec<(String, String, usize, usize)>, // class, detail, thread, job index
    pub stats: SchedStats,
    pub jobs_observed: u64,
    pub clock_reads: u64,
    pub history_hashes: Vec<u64>,
    pub outcome_kinds: BTreeMap<String, u64>,
    pub obs_digest: u64,
}

/// Returns (class, detail).
fn uid_check(css: &str) -> Option<(String, String)> {
    // all `u: <id>` values pairwise distinct and valid CSS identifiers
    let mut ids = vec![];
    for l in css.lines() {
        let l = l.trim();
        if let Some(rest) = l.strip_prefix("u:") {
            ids.push(rest.trim().trim_end_matches(';').to_string());
        }
    }
    if ids.is_empty() {
        return Some(("unique-id(missing)".into(), format!("no unique-id() results in the output: {:?}", css.chars().take(200).collect::<String>())));
    }
    let mut seen = std::collections::BTreeSet::new();
    for id in &ids {
        let mut ch = id.chars();
        let first = ch.next().unwrap_or('0');
        let valid_first = first.is_ascii_alphabetic() || first == '_' || (first == '-' && id.len() > 1);
        if !valid_first || !id.chars().all(|c| c.is_ascii_alphanumeric() || c == '-' || c == '_') {
            return Some(("unique-id(invalid)".into(), format!("unique-id() returned {:?}, not a valid identifier", id)));
        }
        if !seen.insert(id.clone()) {
            return Some(("unique-id(duplicate)".into(), format!("unique-id() returned {:?} twice within one compilation ({} calls)", id, ids.len())));
        }
    }
    None
}

/// Execute a case in this process (the forked child).
pub fn execute(case: &SchedCase, proc_refs: &[((usize, usize), String, String)]) -> ExecOut {
    let nthreads = case.threads.len();
    let uid = case.kind == "uid";
    // references first: each job alone, on a fresh thread, fixed key, nothing else running
    let mut refs: Vec<Vec<Option<Obs>>> = vec![];
    let mut ref_cache: Vec<(&JobSpec, Obs)> = vec![];
    for t in &case.threads {
        let mut v = vec![];
        for j in &t.jobs {
            if uid {
                v.push(None);
                continue;
            }
            // identical jobs (threads drawing from a shared pool) share one reference
            let hit = ref_cache.iter().find(|(k, _)| *k == j).map(|(_, o)| o.clone());
            let o = match hit {
                Some(o) => o,
                None => {
                    let o = run_reference(j, REF_KEY);
                    ref_cache.push((j, o.clone()));
                    o
                }
            };
            v.push(Some(o));
        }
        refs.push(v);
    }
    if case.h1 {
        grass_compiler::verif::set_point_callback(Some(crate::sched::hook_point));
    } else {
        grass_compiler::verif::set_point_callback(None);
    }
    let policy = if !case.switches.is_empty() { Policy::Replay } else { case.policy.clone() };
    let sched = Sched::new(nthreads, policy, case.sched_seed, &case.switches);
    let results: Arc<Mutex<Vec<Vec<Obs>>>> = Arc::new(Mutex::new(vec![vec![]; nthreads]));
    let mut handles = vec![];
    for (tid, t) in case.threads.iter().enumerate() {
        let sched2 = sched.clone();
        let t2 = t.clone();
        let results2 = results.clone();
        let h = std::thread::Builder::new()
            .stack_size(SIM_STACK)
            .spawn(move || {
                crate::seams::set_thread_entropy(Some(t2.entropy));
                crate::detalloc::set_region(2 + tid, t2.heap_shift);
                // the observed compilations take place on another day (and year) than their
                // references, which run at seams::DEFAULT_EPOCH: a result that reads the clock differs
                crate::seams::set_epoch(1_000_000_000 + t2.entropy % 2_000_000_000);
                sched2.enter(tid);
                let shared = crate::job::ThreadShared::new();
                let mut kept: crate::job::OptionsCache = vec![];
                for j in &t2.jobs {
                    crate::sched::point(crate::sched::PointKind::JobStart, 1);
                    let r = if t2.reuse { crate::job::run_job_in(j, Some((&shared, &mut kept))) } else { run_job(j) };
                    let o = obs_of(&r, tid);
                    crate::sched::point(crate::sched::PointKind::JobEnd, 1);
                    results2.lock().unwrap()[tid].push(o);
                }
                sched2.leave(tid);
            })
            .unwrap();
        handles.push(h);
        // serialise thread start-up: the next thread is created only when this one is parked
        sched.wait_started(tid);
    }
    let stats = sched.run_to_completion();
    for h in handles {
        let _ = h.join();
    }
    grass_compiler::verif::set_point_callback(None);
    let results = results.lock().unwrap().clone();
    let mut out = ExecOut { violations: vec![], stats, jobs_observed: 0, clock_reads: 0, history_hashes: vec![], outcome_kinds: BTreeMap::new(), obs_digest: 0 };
    for tid in 0..nthreads {
        for o in &results[tid] {
            out.obs_digest = mix(out.obs_digest, hash_bytes(1, format!("{}|{:?}|{:?}|{}", o.observable, o.log, o.marks, o.ticks).as_bytes()));
        }
        for r in refs[tid].iter().flatten() {
            out.obs_digest = mix(out.obs_digest, hash_bytes(2, format!("{}|{:?}", r.observable, r.log).as_bytes()));
        }
    }
    // process-level history: the in-process reference of a job against the same job as the
    // first compilation of a pristine process
    for ((t, k), observable, log) in proc_refs {
        if let Some(Some(r)) = refs.get(*t).and_then(|v| v.get(*k)) {
            if &r.observable != observable {
                out.violations.push(("diverge(process-history)".into(), format!("as the first compilation of a fresh process vs after other compilations in the process: {}", first_diff(observable, &r.observable)), *t, *k));
            } else if &format!("{:?}", r.log) != log {
                out.violations.push(("diverge(process-history:log)".into(), "logger history differs between a fresh process and a process that compiled other things before".into(), *t, *k));
            }
        }
    }
    for tid in 0..nthreads {
        let mut hist = 0u64;
        for (k, o) in results[tid].iter().enumerate() {
            out.jobs_observed += 1;
            out.clock_reads += o.clock_reads;
            let kind = o.observable.split(|c| c == '\n' || c == ' ').next().unwrap_or("").to_string();
            *out.outcome_kinds.entry(kind).or_insert(0) += 1;
            if k > 0 {
                out.history_hashes.push(hist);
            }
            hist = mix(hist, hash_bytes(3, case.threads[tid].jobs[k].to_json().to_string().as_bytes()));
            if uid {
                if let Some(css) = o.observable.strip_prefix("OK\n") {
                    if let Some((c, p)) = uid_check(css) {
                        out.violations.push((c, p, tid, k));
                    }
                } else {
                    out.violations.push(("unique-id(failed)".into(), format!("unique-id program failed: {}", o.observable.chars().take(200).collect::<String>()), tid, k));
                }
                continue;
            }
            if let Some(Some(r)) = refs[tid].get(k) {
                if let Some((class, detail)) = compare(r, o) {
                    out.violations.push((class, detail, tid, k));
                }
            }
        }
        if results[tid].len() != case.threads[tid].jobs.len() {
            out.violations.push(("thread-died".into(), format!("simulated thread {} finished {} of {} jobs", tid, results[tid].len(), case.threads[tid].jobs.len()), tid, 0));
        }
    }
    out
}

// ---------------------------------------------------------------- fork per run

pub enum ChildEnd {
    Done(Value),
    Signal(i32),
    Exit(i32),
    Timeout,
}

/// Run `f` in a forked child on the deterministic heap; `f` returns the JSON to ship back.
pub fn in_child(timeout_ms: i32, f: impl FnOnce() -> Value) -> ChildEnd {
    unsafe {
        let mut fds = [0i32; 2];
        if libc::pipe(fds.as_mut_ptr()) != 0 {
            return ChildEnd::Exit(-1);
        }
        let pid = libc::fork();
        if pid < 0 {
            return ChildEnd::Exit(-2);
        }
        if pid == 0 {
            libc::close(fds[0]);
            let ok = crate::detalloc::enable();
            let v = if ok { f() } else { json!({"harness_error": "cannot map the deterministic heap"}) };
            let s = v.to_string();
            let b = s.as_bytes();
            let mut off = 0;
            while off < b.len() {
                let n = libc::write(fds[1], b[off..].as_ptr() as *const libc::c_void, b.len() - off);
                if n <= 0 {
                    break;
                }
                off += n as usize;
            }
            libc::_exit(0);
        }
        libc::close(fds[1]);
        let mut buf: Vec<u8> = vec![];
        let mut tmp = [0u8; 65536];
        let start = std::time::Instant::now();
        let mut timed_out = false;
        loop {
            let remaining = timeout_ms as i64 - start.elapsed().as_millis() as i64;
            if remaining <= 0 {
                timed_out = true;
                break;
            }
            let mut pfd = libc::pollfd { fd: fds[0], events: libc::POLLIN, revents: 0 };
            let pr = libc::poll(&mut pfd, 1, remaining.min(1000) as i32);
            if pr < 0 {
                continue;
            }
            if pr == 0 {
                continue;
            }
            let n = libc::read(fds[0], tmp.as_mut_ptr() as *mut libc::c_void, tmp.len());
            if n > 0 {
                buf.extend_from_slice(&tmp[..n as usize]);
            } else {
                break;
            }
        }
        libc::close(fds[0]);
        if timed_out {
            libc::kill(pid, libc::SIGKILL);
        }
        let mut status = 0i32;
        libc::waitpid(pid, &mut status, 0);
        if timed_out {
            return ChildEnd::Timeout;
        }
        if libc::WIFSIGNALED(status) {
            return ChildEnd::Signal(libc::WTERMSIG(status));
        }
        let code = libc::WEXITSTATUS(status);
        match serde_json::from_slice::<Value>(&buf) {
            Ok(v) if code == 0 => ChildEnd::Done(v),
            _ => ChildEnd::Exit(code),
        }
    }
}

fn exec_out_to_json(_case: &SchedCase, o: &ExecOut) -> Value {
    json!({
        "violations": o.violations.iter().map(|(c, d, t, k)| json!([c, d, t, k])).collect::<Vec<_>>(),
        "switches": switches_json(&o.stats.switches),
        "total_points": o.stats.total_points,
        "points_by_kind": o.stats.points_by_kind,
        "sim_time": o.stats.sim_time,
        "jobs_observed": o.jobs_observed,
        "clock_reads": o.clock_reads,
        "history_hashes": o.history_hashes.iter().map(|h| format!("{:x}", h)).collect::<Vec<_>>(),
        "outcome_kinds": o.outcome_kinds,
        "obs_digest": format!("{:x}", o.obs_digest),
    })
}

// ---------------------------------------------------------------- workload

const NAME_POOL: [&str; 10] = ["alpha", "zed", "mid", "beta", "omega", "kappa", "aa", "zz", "left-pad", "x_y"];

fn pick_names(rng: &mut Rng, n: usize) -> Vec<String> {
    let mut pool: Vec<&str> = NAME_POOL.to_vec();
    rng.shuffle(&mut pool);
    pool.truncate(n);
    pool.into_iter().map(|s| s.to_string()).collect()
}

fn yields(rng: &mut Rng, density: f64) -> &'static str {
    if rng.chance(density) {
        "$_y: sim-yield();\n"
    } else {
        ""
    }
}

/// Order-sensitive templates: small programs that funnel an ordered or hashed
/// collection into the output, the error text or the logger history.
fn gen_template(rng: &mut Rng, density: f64) -> JobSpec {
    let mut spec = JobSpec::default();
    spec.cwd = "/t".into();
    spec.eval_fuel = 1_000_000;
    let k = rng.range(2, 5) as usize;
    let names = pick_names(rng, k);
    let y = |rng: &mut Rng| yields(rng, density);
    let which = rng.below(17);
    let text: String = match which {
        0 => {
            // keywords() of an argument list
            let args: Vec<String> = names.iter().enumerate().map(|(i, n)| format!("${}: {}", n, i + 1)).collect();
            format!("@function f($args...) {{ @return inspect(keywords($args)); }}\n{}a {{ b: f({}); }}\n", y(rng), args.join(", "))
        }
        1 => {
            // unknown named arguments in the error text
            let args: Vec<String> = names.iter().enumerate().map(|(i, n)| format!("${}: {}", n, i + 1)).collect();
            format!("@function g($x) {{ @return $x; }}\n{}a {{ b: g($x: 0, {}); }}\n", y(rng), args.join(", "))
        }
        2 => {
            // evaluation order of named arguments, visible in the logger history
            let params: Vec<String> = names.iter().map(|n| format!("${}: 0", n)).collect();
            let mut order: Vec<usize> = (0..names.len()).collect();
            rng.shuffle(&mut order);
            let args: Vec<String> = order.iter().map(|&i| format!("${}: dbg({})", names[i], i)).collect();
            format!("@function dbg($v) {{ @debug $v; @return $v; }}\n@function h({}) {{ @return 1; }}\n{}a {{ b: h({}); }}\n", params.join(", "), y(rng), args.join(", "))
        }
        3 => {
            // maps: insertion order through @each, map-keys, inspect
            let ents: Vec<String> = names.iter().enumerate().map(|(i, n)| format!("{}: {}", n, i)).collect();
            format!("$m: ({});\n{}a {{ k: map-keys($m); i: inspect($m); @each $k, $v in $m {{ {}#{{$k}}: $v; }} }}\n", ents.join(", "), y(rng), "")
        }
        4 => {
            // module members through @forward with show/hide
            let v1: Vec<String> = names.iter().map(|n| format!("${}: 1;", n)).collect();
            let f1: Vec<String> = names.iter().map(|n| format!("@function fn-{}() {{ @return 1; }}", n)).collect();
            let names2 = pick_names(rng, k);
            let v2: Vec<String> = names2.iter().map(|n| format!("${}-b: 2;", n)).collect();
            spec.files.push(("/t/_one.scss".into(), format!("{}\n{}\n", v1.join("\n"), f1.join("\n")).into_bytes()));
            spec.files.push(("/t/_two.scss".into(), format!("{}\n", v2.join("\n")).into_bytes()));
            let fw = match rng.below(3) {
                0 => format!("@forward \"one\";\n@forward \"two\";\n"),
                1 => format!("@forward \"one\" hide ${};\n@forward \"two\";\n", names[0]),
                _ => format!("@forward \"one\" show ${}, ${}, fn-{};\n@forward \"two\";\n", names[0], names[1], names[0]),
            };
            spec.files.push(("/t/_mod.scss".into(), fw.into_bytes()));
            let main = format!("@use \"sass:meta\";\n@use \"sass:map\";\n@use \"mod\";\n{}a {{ v: inspect(map.keys(meta.module-variables(\"mod\"))); f: inspect(map.keys(meta.module-functions(\"mod\"))); }}\n", y(rng));
            spec.files.push(("/t/main.scss".into(), main.into_bytes()));
            spec.entry = Entry::Path("/t/main.scss".into());
            String::new()
        }
        5 => {
            // several @extends of several targets by several extenders
            let mut s = String::new();
            for n in &names {
                s.push_str(&format!(".{} {{ p: {}; }}\n", n, n));
            }
            let mut ord = names.clone();
            rng.shuffle(&mut ord);
            for (i, n) in ord.iter().enumerate() {
                s.push_str(y(rng));
                s.push_str(&format!(".e{} {{ @extend .{}; @extend .{}; q: {}; }}\n", i, n, names[(i + 1) % names.len()], i));
            }
            s.push_str(&format!(".{}.{} .{} {{ r: s; }}\n", names[0], names[1], names[names.len() - 1]));
            s
        }
        6 => {
            // @use ... with: which non-configurable variable the error names
            spec.files.push(("/t/_cfg.scss".into(), names.iter().map(|n| format!("${}: 1;\n", n)).collect::<String>().into_bytes()));
            let mut ord = names.clone();
            rng.shuffle(&mut ord);
            let with: Vec<String> = ord.iter().map(|n| format!("${}: 2", n)).collect();
            spec.files.push(("/t/main.scss".into(), format!("@use \"cfg\" with ({});\n{}a {{ b: c; }}\n", with.join(", "), y(rng)).into_bytes()));
            spec.entry = Entry::Path("/t/main.scss".into());
            String::new()
        }
        7 => {
            // selector functions
            format!("{}a {{ u: selector-unify(\".{}.{}\", \".{}\"); e: selector-extend(\".{} .{}\", \".{}\", \".{}\"); n: selector-nest(\".{}, .{}\", \"&.{}\"); }}\n", y(rng), names[0], names[1], names[1], names[0], names[1], names[1], names[0], names[0], names[1], names[0])
        }
        8 => {
            // mixin with named arguments and defaults that refer to each other
            let params: Vec<String> = names.iter().enumerate().map(|(i, n)| if i == 0 { format!("${}: 1", n) } else { format!("${}: ${} + 1", n, names[i - 1]) }).collect();
            let body: Vec<String> = names.iter().map(|n| format!("{}: ${};", n, n)).collect();
            let mut ord: Vec<usize> = (0..names.len()).collect();
            rng.shuffle(&mut ord);
            let args: Vec<String> = ord.iter().take(2).map(|&i| format!("${}: {}", names[i], 10 * (i + 1))).collect();
            format!("@mixin m({}) {{ {} }}\n{}a {{ @include m({}); }}\n", params.join(", "), body.join(" "), y(rng), args.join(", "))
        }
        9 => {
            // numbers with unknown (user-named) units: their names live in the interner, and
            // compound units are rendered by multiplying / dividing them
            let u: Vec<String> = names.iter().map(|n| n.replace('_', "-")).collect();
            format!("{}a {{ m: unit(1{} * 1{}); d: inspect(1{} * 1{} / 1{}); s: \"#{{unit(2{} * 3{})}}\"; }}\n", y(rng), u[0], u[1], u[0], u[1], u[u.len() - 1], u[1], u[0])
        }
        10 => {
            // media queries: nested @media rules are merged pairwise, in order
            let q: Vec<String> = names.iter().map(|n| format!("({}: 1px)", n)).collect();
            format!("{}@media screen and {}, print and {} {{ @media {}, {} {{ a {{ b: c; }} }} }}\n", y(rng), q[0], q[1], q[q.len() - 1], q[0])
        }
        11 => {
            // nested maps merged deeply; keys keep their first position
            let a: Vec<String> = names.iter().enumerate().map(|(i, n)| format!("{}: (x: {}, y: {})", n, i, i + 1)).collect();
            let mut rev = names.clone();
            rev.reverse();
            let b: Vec<String> = rev.iter().enumerate().map(|(i, n)| format!("{}: (y: {}, z: {})", n, 10 + i, 20 + i)).collect();
            format!("@use \"sass:map\";\n{}a {{ m: inspect(map.deep-merge(({}), ({}))); k: map.keys(map.merge(({}), ({}))); }}\n", y(rng), a.join(", "), b.join(", "), a.join(", "), b.join(", "))
        }
        12 => {
            // an @import-ed file that forwards several modules, two of which define the same
            // variable: which one the importer sees, and in which order members are listed,
            // is decided by the order of the @forward rules
            for (i, f) in ["fa", "fb", "fc"].iter().enumerate() {
                spec.files.push((format!("/t/_{}.scss", f), format!("${}: from-{};\n${}-{}: {};\n", names[0], f, names[1], f, i).into_bytes()));
            }
            spec.files.push(("/t/_fwd.scss".into(), b"@forward \"fa\";\n@forward \"fb\";\n@forward \"fc\";\n".to_vec()));
            spec.files.push(("/t/_user.scss".into(), b"@import \"fwd\";\n".to_vec()));
            let main = format!("@use \"sass:meta\";\n@use \"sass:map\";\n@use \"user\";\n@import \"fwd\";\n{}x {{ y: ${}; z: ${}-fa ${}-fb ${}-fc; m: inspect(map.keys(meta.module-variables(\"user\"))); }}\n", y(rng), names[0], names[1], names[1], names[1]);
            spec.files.push(("/t/main.scss".into(), main.into_bytes()));
            spec.entry = Entry::Path("/t/main.scss".into());
            String::new()
        }
        13 => {
            // both parts of a compound selector extended by several extenders: the extension
            // algorithm has to trim redundant results, which is where selector identities matter
            let n = &names;
            let mut s = format!(".{}.{} {{ p: q; }}\n", n[0], n[1]);
            for (i, x) in n.iter().enumerate().skip(1) {
                s.push_str(y(rng));
                s.push_str(&format!(".x{}-{} {{ @extend .{}, .{}; r{}: s; }}\n", i, x, n[0], n[1], i));
            }
            s.push_str(&format!(".{} .{} {{ t: u; }}\n.z {{ @extend .x1-{}; }}\n", n[1], n[0], n[1]));
            s
        }
        15 => {
            // two rules whose selector lists are equal as values but differ in how they are
            // written (line break after the comma) or in which of their members the author
            // wrote, both ahead of a later @extend: anything that treats the two as one entry
            // lets the one that happens to be visited first decide the text of both
            let n = &names;
            if rng.chance(0.5) {
                format!(".{a}, .{b} {{ x: y; }}\n{y}.{a},\n.{b} {{ x: z; }}\n.{c}-ext {{ @extend .{a}; }}\n", a = n[0], b = n[1], c = n[n.len() - 1], y = y(rng))
            } else {
                format!(".p-{a} .{b} {{ x: y; }}\n.p-{a} .{b}, .p-{a} .{a}.{c} {{ x: z; }}\n{y}.{a}.{c} {{ @extend .{b}; }}\n.{c} {{ @extend .{a}; }}\n", a = n[0], b = n[1], c = n[n.len() - 1], y = y(rng))
            }
        }
        _ => {
            // global variables and functions listed by meta
            let v: Vec<String> = names.iter().map(|n| format!("${}: 1;", n)).collect();
            format!("@use \"sass:meta\";\n{}\n{}a {{ g: meta.global-variable-exists(\"{}\"); i: inspect(({})); }}\n", v.join("\n"), y(rng), names[0], names.iter().map(|n| format!("${}", n)).collect::<Vec<_>>().join(", "))
        }
    };
    if !text.is_empty() {
        spec.entry = Entry::Text(text);
    }
    spec.label = format!("template{}", which);
    spec
}

/// Mutate-then-observe histories: the first job does something that a compiler keeping state
/// between compilations (a module, configuration, function, variable, extension or context
/// table that outlives its compilation) would remember; the second job, on the same thread
/// right after it or one job later, would then see it. Both are judged like every other job:
/// against their own pristine reference.
fn gen_history_pair(rng: &mut Rng, density: f64) -> (JobSpec, JobSpec) {
    let mk = |label: &str, files: Vec<(&str, String)>, entry: Result<&str, String>| {
        let mut j = JobSpec::default();
        j.cwd = "/t".into();
        j.eval_fuel = 1_000_000;
        j.label = label.to_string();
        for (p, t) in files {
            j.files.push((p.to_string(), t.into_bytes()));
        }
        j.entry = match entry {
            Ok(p) => Entry::Path(p.to_string()),
            Err(t) => Entry::Text(t),
        };
        j
    };
    let y = yields(rng, density);
    let which = rng.below(14);
    let (a, b) = match which {
        0 => {
            // a built-in module's variable assigned through a plain @forward of that module
            let var = *rng.pick(&["pi", "e", "epsilon", "max-safe-integer"]);
            let first = mk("pair0:first", vec![("/t/_tok.scss", "@forward \"sass:math\";\n".into()), ("/t/main.scss", format!("@use \"tok\";\n{}tok.${}: 4;\na {{ b: tok.${}; }}\n", y, var, var))], Ok("/t/main.scss"));
            let second = mk("pair0:second", vec![], Err(format!("@use \"sass:math\";\n{}a {{ pi: math.$pi; e: math.$e; eps: math.$epsilon; msi: math.$max-safe-integer; c: math.$pi * 2; }}\n@if math.$pi > 3.5 {{ @warn \"pi is off\"; }}\n", y)));
            (first, second)
        }
        1 => {
            // a module configured by the first compilation, used bare by the second
            let lib = "$c: red !default;\n$d: 1 !default;\n.lib { c: $c; d: $d; }\n".to_string();
            let first = mk("pair1:first", vec![("/t/_lib.scss", lib.clone()), ("/t/main.scss", format!("@use \"lib\" with ($c: blue, $d: 2);\n{}a {{ b: lib.$c; }}\n", y))], Ok("/t/main.scss"));
            let second = mk("pair1:second", vec![("/t/_lib.scss", lib), ("/t/main.scss", format!("@use \"lib\";\n{}a {{ b: lib.$c; d: lib.$d; }}\n", y))], Ok("/t/main.scss"));
            (first, second)
        }
        2 => {
            // user-defined callables that shadow global built-ins
            let first = mk("pair2:first", vec![], Err(format!("@function rgb($a...) {{ @return shadowed; }}\n@function lighten($c, $a) {{ @return l; }}\n@mixin m {{ x: y; }}\n{}a {{ b: rgb(1, 2, 3); c: lighten(red, 10%); @include m; }}\n", y)));
            let second = mk("pair2:second", vec![], Err(format!("{}a {{ b: rgb(1, 2, 3); c: lighten(red, 10%); d: function-exists(m); e: mixin-exists(m); f: function-exists(rgb); }}\n", y)));
            (first, second)
        }
        3 => {
            // global variables
            let first = mk("pair3:first", vec![], Err(format!("$g: 1;\n{}a {{ $g: 2 !global; b: $g; }}\n$h: 3;\n", y)));
            let second = mk("pair3:second", vec![], Err(format!("{}a {{ b: variable-exists(g); c: global-variable-exists(h); }}\n$g: 5 !default;\nd {{ e: $g; }}\n", y)));
            (first, second)
        }
        4 => {
            // extensions and placeholders
            let first = mk("pair4:first", vec![], Err(format!("%p {{ x: y; }}\n.a {{ @extend %p; }}\n{}.b {{ @extend .a; }}\n.c {{ z: w; }}\n.e {{ @extend .c; }}\n", y)));
            let second = mk("pair4:second", vec![], Err(format!("%p {{ x: y; }}\n.a {{ q: r; }}\n{}.c {{ z: w; }}\n.d {{ @extend .c; }}\n", y)));
            (first, second)
        }
        5 => {
            // the same paths with other contents
            let first = mk("pair5:first", vec![("/t/_dep.scss", "$v: one;\n.dep { from: first; }\n".into()), ("/t/main.scss", format!("@use \"dep\";\n{}a {{ b: dep.$v; }}\n", y))], Ok("/t/main.scss"));
            let second = mk("pair5:second", vec![("/t/_dep.scss", "$v: two;\n.dep { from: second; }\n".into()), ("/t/main.scss", format!("@use \"dep\";\n{}a {{ b: dep.$v; }}\n", y))], Ok("/t/main.scss"));
            (first, second)
        }
        6 => {
            // a compilation that fails deep inside nested contexts, then an ordinary one
            let ctxs = ["@media print { a { b { @error \"stop\"; } } }\n", "@keyframes k { from { @error \"stop\"; } }\n", "@mixin m { @content; }\na { @include m { @at-root { c { @error \"stop\"; } } } }\n", "@function f() { @error \"stop\"; }\n@supports (a: b) { x { y: f(); } }\n", "@use \"sass:meta\";\n@mixin n { q { @error \"stop\"; } }\np { @include meta.apply(meta.get-mixin(\"n\")); }\n"];
            let first = mk("pair6:first", vec![], Err(format!("{}{}", y, rng.pick(&ctxs))));
            let second = mk("pair6:second", vec![], Err(format!("{}a {{ b: c; & d {{ e: f; }} }}\nfrom {{ g: h; }}\n@media screen {{ i {{ j: k; }} }}\n", y)));
            (first, second)
        }
        7 => {
            // the same program twice: every diagnostic has to be delivered again
            let t = format!("@function f($x) {{ @warn \"w#{{$x}}\"; @debug \"d#{{$x}}\"; @return $x; }}\n{}a {{ b: f(1) f(1) f(2); }}\n@warn \"top\";\n@warn \"top\";\n", y);
            (mk("pair7:first", vec![], Err(t.clone())), mk("pair7:second", vec![], Err(t)))
        }
        9 => {
            // a compilation that panics (fuel exhaustion, a panicking Logger or Fs: anything the
            // caller catches with catch_unwind) several hundred user-defined calls deep, then one
            // that nests a few hundred calls itself: bookkeeping that is restored by plain code
            // after a call, not by a drop guard, is left behind by the unwinding
            let f = "@function sum($n) { @if $n <= 0 { @return 0; } @return $n + sum($n - 1); }\n@mixin deep($n) { @if $n > 0 { @include deep($n - 1); } @else { x: y; } }\n";
            let mut first = mk("pair9:first", vec![], Err(format!("{}{}a {{ b: sum(400); @include deep(300); }}\n", f, y)));
            first.eval_fuel = *rng.pick(&[200u64, 500, 800, 1300]);
            let second = mk("pair9:second", vec![], Err(format!("{}{}a {{ b: sum(300); @include deep(300); }}\n", f, y)));
            (first, second)
        }
        10 => {
            // the same source under other options: anything derived from the options of the first
            // compilation that gets there (a table built once per process, a cached separator or
            // glyph set) shows in the second. Colour names longer than their hex form, a computed
            // colour, a repeating fraction, non-ASCII text, and optionally an error to render.
            let err = if rng.chance(0.4) { "@error \"stop é\";\n" } else { "" };
            let t = format!("{}a {{ c: blanchedalmond; d: mix(white, white); e: (1 / 3); f: \"é\"; g: #ffebcd; h: rgba(255, 235, 205, 1) red; }}\n{}", y, err);
            let mut first = mk("pair10:first", vec![], Err(t.clone()));
            let mut second = mk("pair10:second", vec![], Err(t));
            first.compressed = rng.chance(0.5);
            first.unicode = rng.chance(0.5);
            first.charset = rng.chance(0.5);
            second.compressed = !first.compressed;
            second.unicode = if rng.chance(0.7) { !first.unicode } else { first.unicode };
            second.charset = if rng.chance(0.7) { !first.charset } else { first.charset };
            (first, second)
        }
        11 | 12 => {
            // two programs of the same SHAPE with other names: every selector, property, value,
            // number and callable name sits at the same byte offsets and has the same length, only
            // the letters differ. Anything memoised under a key that looks unique within one
            // compilation but repeats across compilations (a span, an offset, a statement index,
            // the address of a per-compilation object that the next compilation reuses) hands the
            // second program what belonged to the first. The first one often ends in an error
            // after most of it was evaluated: clean-up code on the success path has not run then.
            let ss = ["old", "new", "foo", "bar", "baz", "qux"];
            let ps = ["color", "width", "order", "float", "clear"];
            let vs = ["red", "tan", "1px", "2em", "4pt"];
            let ns = ["100", "250", "480", "999"];
            let cs = ["mix-a", "mix-b", "fn-cc", "fn-dd"];
            let mut pick3 = |rng: &mut Rng, pool: &[&str]| -> Vec<String> {
                let mut v: Vec<String> = pool.iter().map(|s| s.to_string()).collect();
                rng.shuffle(&mut v);
                v.truncate(3);
                v
            };
            let shape = |s: &[String], p: &[String], v: &[String], n: &[String], c: &[String], y: &str| -> String {
                format!(
                    ".{s0} {{ {p0}: {v0}; .{s1} {{ {p1}: {v1}; }} }}\n%{s2} {{ {p0}: {v1}; }}\n.{s1}-x {{ @extend %{s2}; }}\n@media (min-width: {n0}px) {{ .{s0} {{ {p1}: {v0}; }} }}\n@mixin {c0}($a) {{ .{s2} {{ {p0}: $a; }} }}\n@include {c0}({v1});\n{y}$map: ({s0}: {v0}, {s1}: {v1});\n@each $k, $v in $map {{ .k-#{{$k}} {{ {p0}: $v; }} }}\n@function {c1}($x) {{ @return $x * {n1}; }}\n.{s1} {{ height: {c1}(2px); content: \"{s2}\"; }}\n@debug {s0} {v1};\n",
                    s0 = s[0], s1 = s[1], s2 = s[2], p0 = p[0], p1 = p[1], v0 = v[0], v1 = v[1], n0 = n[0], n1 = n[1], c0 = c[0], c1 = c[1], y = y
                )
            };
            let (s1, p1, v1, n1, c1) = (pick3(rng, &ss), pick3(rng, &ps), pick3(rng, &vs), pick3(rng, &ns), pick3(rng, &cs));
            let (s2, p2, v2, n2, c2) = (pick3(rng, &ss), pick3(rng, &ps), pick3(rng, &vs), pick3(rng, &ns), pick3(rng, &cs));
            let tails = ["@error \"stop\";\n", ".zz { a: $undefined; }\n", "@include nonexistent;\n", ".zz { a: 1px + 1s; }\n", ".zz { @extend .missing; }\n", "", ""];
            let tail = *rng.pick(&tails);
            let first = mk("pair11:first", vec![], Err(format!("{}{}", shape(&s1, &p1, &v1, &n1, &c1, &y), tail)));
            // the second: other names (or, one time in four, the very same text without the failing tail)
            let second_text = if rng.chance(0.25) { shape(&s1, &p1, &v1, &n1, &c1, &y) } else { shape(&s2, &p2, &v2, &n2, &c2, &y) };
            let mut second = mk("pair11:second", vec![], Err(second_text));
            if which == 12 {
                // ... and once more as plain CSS: same bytes, other parser (a plain-CSS parse of this
                // text fails; the error has to be the one a fresh thread reports)
                second.input_syntax = Some("css".into());
            }
            (first, second)
        }
        13 => {
            // a load path that is not there when the first compilation runs (the directory of
            // generated sources before the generator has run, a dependency not yet installed) and
            // is there, and wins, when the second one runs with the same option values: whatever
            // the first compilation learnt about the load paths may not be remembered
            let (lp_a, lp_b) = ("/t/generated", "/t/vendor");
            let how = *rng.pick(&["@use \"lib\";\n", "@import \"lib\";\n", "@use \"lib\" as *;\n"]);
            let main = format!("{}{}a {{ b: c; }}\n", how, y);
            let mut first = mk("pair13:first", vec![("/t/vendor/_lib.scss", ".lib { from: vendor; }\n".into()), ("/t/main.scss", main.clone())], Ok("/t/main.scss"));
            let mut second = mk("pair13:second", vec![("/t/vendor/_lib.scss", ".lib { from: vendor; }\n".into()), ("/t/generated/_lib.scss", ".lib { from: generated; }\n".into()), ("/t/main.scss", main)], Ok("/t/main.scss"));
            if rng.chance(0.3) {
                // ... or the first compilation finds nothing at all
                first.files.retain(|f| !f.0.starts_with("/t/vendor"));
            }
            for j in [&mut first, &mut second] {
                j.load_paths = vec![lp_a.to_string(), lp_b.to_string()];
            }
            (first, second)
        }
        _ => {
            // a failed load of a module, then a successful load of the same path
            let first = mk("pair8:first", vec![("/t/_m.scss", "$v: 1;\n@error \"broken module\";\n".into()), ("/t/_n.scss", "@use \"m\";\n".into()), ("/t/main.scss", format!("@use \"n\";\n{}a {{ b: c; }}\n", y))], Ok("/t/main.scss"));
            let second = mk("pair8:second", vec![("/t/_m.scss", "$v: 1;\n.m { ok: yes; }\n".into()), ("/t/_n.scss", "@use \"m\";\n".into()), ("/t/main.scss", format!("@use \"n\";\n@use \"m\";\n{}a {{ b: m.$v; }}\n", y))], Ok("/t/main.scss"));
            (first, second)
        }
    };
    (a, b)
}

fn gen_job(rng: &mut Rng, ctx: &Ctx, pools: &Pools, density: f64) -> JobSpec {
    let r = rng.below(100);
    let mut j = if r < 40 {
        // corpus item, as the suite runs it; every fourth one from the @extend / selector tests
        let ext_pool: Vec<usize> = pools.scss_any.iter().copied().filter(|&i| ctx.corpus[i].file.starts_with("extend") || ctx.corpus[i].file.starts_with("selector")).collect();
        let idx = if rng.chance(0.25) && !ext_pool.is_empty() { *rng.pick(&ext_pool) } else { *rng.pick(&pools.scss_any) };
        let it = &ctx.corpus[idx];
        let mut s = JobSpec::default();
        s.entry = Entry::Text(it.input.clone());
        s.label = format!("corpus:{}::{}", it.file, it.name);
        s.fs_kind = "sim".into();
        s.eval_fuel = 3_000_000;
        s
    } else if r < 65 {
        gen_template(rng, density)
    } else if r < 85 {
        let mut s = gen_project(rng, &ctx.corpus, pools, &GenOpts { max_deps: 4, allow_random: false });
        s.label = "project".into();
        s.eval_fuel = 3_000_000;
        s
    } else {
        let sc = crate::engine_logger::gen_script(rng, "/w");
        let mut s = sc.job;
        s.label = "logger-script".into();
        s
    };
    j.compressed = rng.chance(0.3);
    j.unicode = rng.chance(0.7);
    // some jobs in a history fail, are faulted, or run out of fuel mid-evaluation
    let f = rng.below(100);
    if f < 6 {
        j.eval_fuel = rng.range(3, 40); // fuel exhaustion: a panic that unwinds out of the evaluator
    } else if f < 14 && !j.files.is_empty() {
        j.faults.push(Fault::ReadErr { at: rng.range(1, 12) as usize, kind: *rng.pick(&[IoKind::NotFound, IoKind::Other, IoKind::PermissionDenied]) });
    } else if f < 18 && !j.files.is_empty() {
        j.faults.push(Fault::Stall { at: rng.range(0, 8) as usize, latency: 5_000 });
    }
    j
}

fn gen_case(rng: &mut Rng, ctx: &Ctx, pools: &Pools) -> SchedCase {
    let nthreads = *rng.pick(&[1usize, 1, 2, 2, 2, 3, 4]);
    let density = *rng.pick(&[0.0, 0.2, 0.8]);
    let share = rng.chance(0.4);
    let mut shared: Vec<JobSpec> = vec![];
    if share {
        for _ in 0..3 {
            shared.push(gen_job(rng, ctx, pools, density));
        }
    }
    let mut threads = vec![];
    for _ in 0..nthreads {
        let nj = rng.range(1, 6) as usize;
        let mut jobs = vec![];
        for _ in 0..nj {
            if share && rng.chance(0.5) {
                jobs.push(rng.pick(&shared).clone());
            } else {
                jobs.push(gen_job(rng, ctx, pools, density));
            }
            // the same source again with other options (a build that emits expanded and
            // minified CSS from one file): anything memoised without the options in its key shows
            if rng.chance(0.25) && jobs.len() < 6 {
                let mut again = jobs.last().unwrap().clone();
                match rng.below(3) {
                    0 => again.compressed = !again.compressed,
                    1 => again.unicode = !again.unicode,
                    _ => {
                        again.compressed = !again.compressed;
                        again.charset = !again.charset;
                    }
                }
                jobs.push(again);
            }
        }
        for j in jobs.iter_mut() {
            j.depth_limit = JOB_DEPTH_LIMIT;
        }
        // a mutate-then-observe pair somewhere in this thread's history
        if rng.chance(0.2) {
            let (a, b) = gen_history_pair(rng, density);
            let at = rng.usize_below(jobs.len() + 1);
            let (mut a, mut b) = (a, b);
            a.depth_limit = JOB_DEPTH_LIMIT;
            b.depth_limit = JOB_DEPTH_LIMIT;
            jobs.insert(at, a);
            let gap = if rng.chance(0.3) && at + 1 < jobs.len() { 1 } else { 0 };
            jobs.insert(at + 1 + gap, b);
        }
        let entropy = if rng.chance(0.15) { REF_KEY } else { rng.next_u64() | 1 };
        let heap_shift = if rng.chance(0.5) { 0 } else { rng.range(1, 4096) as usize };
        threads.push(SimThread { entropy, heap_shift, jobs, reuse: rng.chance(0.35) });
    }
    // compilations that overlap in time, each resolving the same URLs through the same load-path
    // names against a tree of its own: whatever one of them learns about "where lib is" is
    // worthless to the others (a process-wide table of resolutions shows here and nowhere else)
    if threads.len() >= 2 && rng.chance(0.3) {
        for (ti, th) in threads.iter_mut().enumerate() {
            let mut j = JobSpec::default();
            j.cwd = "/t".into();
            j.eval_fuel = 1_000_000;
            j.depth_limit = JOB_DEPTH_LIMIT;
            j.label = format!("load-path-job:{}", ti);
            j.load_paths = vec!["/t/generated".into(), "/t/vendor".into()];
            let variant = rng.below(3);
            for (u, name) in [("lib", "_lib.scss"), ("kit", "kit.scss"), ("base", "base/_index.scss")] {
                if variant != 0 {
                    j.files.push((format!("/t/vendor/{}", name), format!(".{} {{ from: vendor-of-thread-{}; }}\n", u, ti).into_bytes()));
                }
                if variant != 1 {
                    j.files.push((format!("/t/generated/{}", name), format!(".{} {{ from: generated-of-thread-{}; }}\n", u, ti).into_bytes()));
                }
            }
            let y = yields(rng, density);
            j.files.push(("/t/main.scss".into(), format!("@use \"lib\";\n{}@import \"kit\";\n{}@import \"base\";\na {{ b: c; }}\n", y, y).into_bytes()));
            j.entry = Entry::Path("/t/main.scss".into());
            let at = rng.usize_below(th.jobs.len() + 1);
            th.jobs.insert(at, j);
        }
    }
    let policy = match rng.below(10) {
        0 | 1 => Policy::Serial,
        2 => Policy::Random(0.02),
        3 | 4 => Policy::Random(0.2),
        5 => Policy::Random(0.5),
        6 => Policy::Pct { d: 1, horizon: 3000 },
        7 => Policy::Pct { d: 3, horizon: 3000 },
        _ => Policy::Latency,
    };
    let mut proc_refs = vec![];
    for _ in 0..1 {
        let mut t = rng.usize_below(threads.len());
        let mut k = rng.usize_below(threads[t].jobs.len());
        // prefer the observing half of a mutate-then-observe pair: it is the job most likely to
        // differ from what it would be as the first compilation of a fresh process
        let seconds: Vec<(usize, usize)> = threads.iter().enumerate().flat_map(|(ti, th)| th.jobs.iter().enumerate().filter(|(_, j)| j.label.ends_with(":second")).map(move |(ki, _)| (ti, ki))).collect();
        if !seconds.is_empty() && rng.chance(0.7) {
            let pick = *rng.pick(&seconds);
            t = pick.0;
            k = pick.1;
        }
        if !proc_refs.contains(&(t, k)) {
            proc_refs.push((t, k));
        }
    }
    SchedCase { threads, policy, sched_seed: rng.next_u64(), switches: vec![], h1: rng.chance(0.85), kind: String::new(), proc_refs }
}

fn gen_uid_case(rng: &mut Rng) -> SchedCase {
    let nthreads = rng.range(1, 3) as usize;
    // adversarial entropy: all-zero stream, identical for every thread, or plain seeded
    let mode = rng.below(3);
    let common = rng.next_u64();
    let mut threads = vec![];
    for _ in 0..nthreads {
        let n = *rng.pick(&[1u64, 2, 10, 100, 500, 500, 5000, 5000, 70_000]);
        let mut text = String::from("a {\n");
        text.push_str(&format!("@for $i from 1 through {} {{ u: unique-id(); }}\n}}\n", n));
        // @for inside a rule repeats the declaration name; fine for the check (one per line)
        let mut j = JobSpec::default();
        j.entry = Entry::Text(text);
        j.label = format!("uid x{}", n);
        let entropy = match mode {
            0 => 0,
            1 => common,
            _ => rng.next_u64(),
        };
        threads.push(SimThread { entropy, heap_shift: 0, jobs: vec![j.clone(), j], reuse: false });
    }
    SchedCase { threads, policy: Policy::Random(0.2), sched_seed: rng.next_u64(), switches: vec![], h1: true, kind: "uid".into(), proc_refs: vec![] }
}

fn run_case_forked(case: &SchedCase) -> Result<Value, String> {
    let mut prefs: Vec<((usize, usize), String, String)> = vec![];
    if case.kind != "uid" {
        for &(t, k) in &case.proc_refs {
            let job = match case.threads.get(t).and_then(|th| th.jobs.get(k)) {
                Some(j) => j.clone(),
                None => continue,
            };
            match in_child(30_000, move || {
                // another hash key than the in-process references: a process-global hasher state
                // that is captured once from the first thread to hash then differs between the two
                let o = run_reference(&job, PROC_REF_KEY);
                json!({"observable": o.observable, "log": format!("{:?}", o.log)})
            }) {
                ChildEnd::Done(v) => prefs.push(((t, k), v.get("observable").and_then(|s| s.as_str()).unwrap_or("").to_string(), v.get("log").and_then(|s| s.as_str()).unwrap_or("").to_string())),
                _ => {} // a job that kills its process does so in the run as well and is reported there
            }
        }
    }
    let c2 = case.clone();
    match in_child(30_000, move || {
        let o = execute(&c2, &prefs);
        exec_out_to_json(&c2, &o)
    }) {
        ChildEnd::Done(v) => {
            if let Some(e) = v.get("harness_error") {
                return Err(e.to_string());
            }
            Ok(v)
        }
        ChildEnd::Signal(s) => Ok(json!({"violations": [[format!("abort(signal {})", s), "the run process died", 0, 0]], "died": true})),
        ChildEnd::Exit(c) => Ok(json!({"violations": [[format!("abort(exit {})", c), "the run process exited abnormally", 0, 0]], "died": true})),
        ChildEnd::Timeout => Ok(json!({"violations": [["hang(wall)", "the run did not finish within 30 s", 0, 0]], "died": true})),
    }
}

/// The explicit, replayable form of a violating run: recorded switches instead of a policy.
fn explicit_case(case: &SchedCase, out: &Value) -> Value {
    let mut v = case.to_json();
    if let Some(sw) = out.get("switches") {
        if sw.as_array().map_or(false, |a| !a.is_empty()) {
            v["switches"] = sw.clone();
            v["policy"] = json!("replay");
        }
    }
    v
}

fn violations_of(case: &SchedCase, out: &Value) -> Vec<Violation> {
    let mut vs = vec![];
    let ex = explicit_case(case, out);
    for v in out.get("violations").and_then(|a| a.as_array()).cloned().unwrap_or_default() {
        let class = v.get(0).and_then(|s| s.as_str()).unwrap_or("?").to_string();
        let detail = v.get(1).and_then(|s| s.as_str()).unwrap_or("").to_string();
        let t = v.get(2).and_then(|s| s.as_u64()).unwrap_or(0) as usize;
        let k = v.get(3).and_then(|s| s.as_u64()).unwrap_or(0) as usize;
        let label = case.threads.get(t).and_then(|th| th.jobs.get(k)).map(|j| j.label.clone()).unwrap_or_default();
        vs.push(Violation { property: "C02".into(), class, detail: format!("thread {} job {} ({}): {}", t, k, label, detail), case: ex.clone() });
    }
    vs
}

impl Engine for SchedEngine {
    fn name(&self) -> &'static str {
        "sched"
    }
    fn property(&self) -> &'static str {
        "C02"
    }
    fn level(&self) -> &'static str {
        "exploration"
    }
    fn units(&self, ctx: &Ctx) -> u64 {
        if ctx.tier == "thorough" {
            6_000
        } else {
            200
        }
    }
    fn unit_timeout_s(&self) -> u64 {
        600
    }
    fn case_timeout_s(&self) -> u64 {
        60
    }
    fn run_unit(&self, ctx: &Ctx, unit: u64, progress: Progress) -> UnitResult {
        let mut res = UnitResult::default();
        let mut rng = Rng::new(mix(mix_str(ctx.seed, "sched"), unit));
        let pools = Pools::new(&ctx.corpus, false);
        for i in 0..24u64 {
            let case = if rng.chance(0.06) { gen_uid_case(&mut rng) } else { gen_case(&mut rng, ctx, &pools) };
            let c2 = case.clone();
            if !progress(i, &move || c2.to_json()) {
                continue;
            }
            match run_case_forked(&case) {
                Ok(out) => {
                    res.fold(out.get("obs_digest").and_then(|d| d.as_str()).unwrap_or("").as_bytes());
                    res.fold(out.get("switches").map(|s| s.to_string()).unwrap_or_default().as_bytes());
                    res.fold(out.get("violations").map(|s| s.to_string()).unwrap_or_default().as_bytes());
                    res.bump("evaluations", 1);
                    res.bump("process_pristine_references", case.proc_refs.len() as u64);
                    res.bump("jobs_observed", out.get("jobs_observed").and_then(|x| x.as_u64()).unwrap_or(0));
                    res.bump("jobs_under_simulated_clock", out.get("jobs_observed").and_then(|x| x.as_u64()).unwrap_or(0));
                    let cr = out.get("clock_reads").and_then(|x| x.as_u64()).unwrap_or(0);
                    if cr > 0 {
                        res.bump("probe.clock_reads_inside_compilation", cr);
                    }
                    res.bump(&format!("policy.{}", case.policy.name()), 1);
                    for t in case.threads.iter().filter(|t| t.reuse) {
                        // jobs that ran with an Options object (and its Fs / Logger objects) an earlier job had used
                        let mut keys: Vec<String> = vec![];
                        for j in &t.jobs {
                            let k = crate::job::options_key(j);
                            if keys.contains(&k) {
                                res.bump("probe.job_ran_with_an_options_object_used_before", 1);
                            } else {
                                keys.push(k);
                            }
                        }
                        res.bump("threads_keeping_their_options_objects", 1);
                    }
                    res.bump(&format!("threads.{}", case.threads.len()), 1);
                    res.bump("sim_time_units", out.get("sim_time").and_then(|x| x.as_u64()).unwrap_or(0));
                    res.bump("scheduling_points", out.get("total_points").and_then(|x| x.as_u64()).unwrap_or(0));
                    if let Some(pk) = out.get("points_by_kind").and_then(|a| a.as_array()) {
                        for (i, n) in pk.iter().enumerate() {
                            res.bump(&format!("points.{}", KIND_NAMES[i]), n.as_u64().unwrap_or(0));
                        }
                    }
                    let sw = out.get("switches").and_then(|a| a.as_array()).cloned().unwrap_or_default();
                    let inside: Vec<&Value> = sw.iter().filter(|s| !matches!(s.get(3).and_then(|k| k.as_str()), Some("start") | Some("thread_end") | Some("job_end"))).collect();
                    res.bump("context_switches", sw.len() as u64);
                    res.bump("switches_inside_a_compilation", inside.len() as u64);
                    if sw.iter().any(|s| s.get(3).and_then(|k| k.as_str()) == Some("hook")) {
                        res.bump("probe.switch_at_h1_hook_point", 1);
                    }
                    if !inside.is_empty() {
                        res.set_add("interleavings", hash_bytes(5, json!(sw).to_string().as_bytes()));
                        res.distinct.push(hash_bytes(6, json!([case.to_json(), sw]).to_string().as_bytes()));
                    } else if case.threads.iter().any(|t| t.jobs.len() > 1) {
                        res.distinct.push(hash_bytes(6, case.to_json().to_string().as_bytes()));
                    }
                    for h in out.get("history_hashes").and_then(|a| a.as_array()).cloned().unwrap_or_default() {
                        if let Some(x) = h.as_str().and_then(|s| u64::from_str_radix(s, 16).ok()) {
                            res.set_add("histories", x);
                        }
                    }
                    if let Some(ok) = out.get("outcome_kinds").and_then(|o| o.as_object()) {
                        for (k, n) in ok {
                            res.bump(&format!("observed.{}", k), n.as_u64().unwrap_or(0));
                        }
                    }
                    for t in &case.threads {
                        for j in &t.jobs {
                            for f in &j.faults {
                                res.bump(&format!("configured.{}", f.kind()), 1);
                            }
                            if j.eval_fuel < 100 {
                                res.bump("probe.fuel_exhausted_job_in_history", 1);
                            }
                            if j.label.starts_with("pair") && j.label.ends_with(":second") {
                                res.bump("probe.mutate_then_observe_pair_in_history", 1);
                            }
                        }
                        if t.entropy == REF_KEY {
                            res.bump("threads_with_reference_hash_key", 1);
                        } else {
                            res.bump("threads_with_other_hash_key", 1);
                        }
                        if t.heap_shift != 0 {
                            res.bump("fired.heap_shift", 1);
                        }
                    }
                    if case.kind == "uid" {
                        res.bump("unique_id_runs", 1);
                    }
                    res.violations.extend(violations_of(&case, &out));
                    if res.samples.len() < 2 && case.threads.len() >= 2 && !inside.is_empty() {
                        res.samples.push(json!({"threads": case.threads.iter().map(|t| json!({"entropy": t.entropy, "heap_shift": t.heap_shift, "reuse": t.reuse, "jobs": t.jobs.iter().map(|j| j.label.clone()).collect::<Vec<_>>()})).collect::<Vec<_>>(),
                            "policy": case.policy.name(), "switches": sw.iter().take(40).collect::<Vec<_>>(), "n_switches": sw.len()}));
                    }
                }
                Err(e) => {
                    res.violations.push(Violation { property: "C02".into(), class: "harness".into(), detail: e, case: case.to_json() });
                }
            }
        }
        res
    }
    fn exec(&self, _ctx: &Ctx, case: &Value) -> Vec<Violation> {
        let c = match SchedCase::from_json(case) {
            Some(c) => c,
            None => return vec![Violation { property: "C02".into(), class: "bad-case".into(), detail: "unparsable case".into(), case: case.clone() }],
        };
        match run_case_forked(&c) {
            Ok(out) => {
                let mut vs = violations_of(&c, &out);
                // keep the case exactly as given (it already carries its switches)
                for v in vs.iter_mut() {
                    if !c.switches.is_empty() {
                        v.case = case.clone();
                    }
                }
                vs
            }
            Err(e) => vec![Violation { property: "C02".into(), class: "harness".into(), detail: e, case: case.clone() }],
        }
    }
    fn shrink(&self, case: &Value) -> Vec<Value> {
        let c = match SchedCase::from_json(case) {
            Some(c) => c,
            None => return vec![],
        };
        let mut out: Vec<SchedCase> = vec![];
        // replace the decision list by `serial` (pure history effect?)
        if !c.switches.is_empty() || c.policy != Policy::Serial {
            let mut d = c.clone();
            d.switches.clear();
            d.policy = Policy::Serial;
            d.sched_seed = 0;
            out.push(d);
        }
        // fresh Options / Fs / Logger objects for every job
        for t in 0..c.threads.len() {
            if c.threads[t].reuse {
                let mut d = c.clone();
                d.threads[t].reuse = false;
                out.push(d);
            }
        }
        // drop threads
        if c.threads.len() > 1 {
            for i in 0..c.threads.len() {
                let mut d = c.clone();
                d.threads.remove(i);
                d.proc_refs.retain(|(t, _)| *t != i);
                for p in d.proc_refs.iter_mut() {
                    if p.0 > i {
                        p.0 -= 1;
                    }
                }
                // thread ids shift: recorded switches no longer mean anything
                d.switches.clear();
                if d.policy == Policy::Replay {
                    d.policy = Policy::Serial;
                }
                out.push(d);
            }
        }
        // drop jobs
        for t in 0..c.threads.len() {
            if c.threads[t].jobs.len() > 1 {
                for k in 0..c.threads[t].jobs.len() {
                    let mut d = c.clone();
                    d.threads[t].jobs.remove(k);
                    d.proc_refs.retain(|(pt, pk)| !(*pt == t && *pk == k));
                    for p in d.proc_refs.iter_mut() {
                        if p.0 == t && p.1 > k {
                            p.1 -= 1;
                        }
                    }
                    out.push(d);
                }
            }
        }
        // remove context switches one at a time (from the end)
        if c.switches.len() > 1 && c.switches.len() <= 400 {
            for i in (1..c.switches.len()).rev().take(60) {
                let mut d = c.clone();
                d.switches.remove(i);
                out.push(d);
            }
        }
        if c.h1 {
            let mut d = c.clone();
            d.h1 = false;
            out.push(d);
        }
        // simplify environment
        for t in 0..c.threads.len() {
            if c.threads[t].heap_shift != 0 {
                let mut d = c.clone();
                d.threads[t].heap_shift = 0;
                out.push(d);
            }
            if c.threads[t].entropy != REF_KEY {
                let mut d = c.clone();
                d.threads[t].entropy = REF_KEY;
                out.push(d);
            }
        }
        // shrink the jobs themselves
        for t in 0..c.threads.len() {
            for k in 0..c.threads[t].jobs.len() {
                for j in crate::shrink::shrink_job(&c.threads[t].jobs[k]).into_iter().take(40) {
                    let mut d = c.clone();
                    d.threads[t].jobs[k] = j;
                    out.push(d);
                }
            }
        }
        out.into_iter().map(|d| d.to_json()).collect()
    }
    fn rule(&self) -> String {
        "seeded runs of 1-4 simulated threads x 1-6 jobs each (jobs: suite inputs, order-sensitive templates over a shared identifier pool [keywords(), unknown named arguments, named-argument evaluation order, maps, module members through @forward show/hide, @extend, @use-with, selector functions, mixin defaults, compound units with user-named units, nested @media merging, map.deep-merge, conflicting @forwards reached through @import, compound selectors extended by several extenders], multi-file projects on SimFs, logger scripts; 40% of runs let threads draw from a shared job pool); per run a scheduling policy (serial, random(0.02/0.2/0.5), pct(1/3), latency), per-thread hash key (15% equal to the reference key), heap shift, sim-yield density, H1 on/off; some history jobs fail, are Fs-faulted, or run out of evaluation fuel mid-evaluation (caught panic). 6% of runs are unique-id() runs under adversarial entropy. Every run executes in a process forked for it alone on a deterministic heap. Non-trivial = runs with a context switch inside a compilation or a thread with more than one job; distinct by (case, switch list).".into()
    }
    fn assumptions(&self) -> Vec<String> {
        vec![
            "reference = the same job alone on a fresh OS thread (empty interner), fixed hash key, no co-runners, same process; for one job per run additionally the same job as the first compilation of a pristine process (process-level history)".into(),
            "interleavings are explored at scheduling points only (SimFs and SimLogger calls, sim-yield(), job boundaries, and with H1 every interner and global-counter operation); code between points is assumed atomic, which holds for safe Rust without shared mutable state".into(),
            "once_cell Lazy tables are forced before simulation starts (first-use races are once_cell's responsibility)".into(),
            "programs using random()/unique-id() are excluded from the comparison, as the property says; unique-id() is checked separately for distinctness and identifier syntax".into(),
        ]
    }
    fn extra_evidence(&self, stats: &BTreeMap<String, u64>) -> Value {
        json!({
            "simulated_time_units": stats.get("sim_time_units").copied().unwrap_or(0),
            "simulated_time_note": "discrete-event clock of the simulator (Fs latencies, stalls); grass never reads a clock",
            "jobs_observed": stats.get("jobs_observed").copied().unwrap_or(0),
            "scheduling_points": stats.get("scheduling_points").copied().unwrap_or(0),
            "context_switches": stats.get("context_switches").copied().unwrap_or(0),
            "real_vs_stub": {"real": ["whole library incl. thread-local interner, global atomics, Lazy tables, HashMap/HashSet, rand::thread_rng", "OS threads"], "stub": ["OS scheduler (token passing)", "getrandom (seeded per thread)", "heap addresses (per-thread bump regions)", "Fs (SimFs)", "Logger (recorder)"]},
        })
    }
}
