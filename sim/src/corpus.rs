//! Golden corpus: the inputs of the pinned suite, extracted at check time from
//! `$REPO/crates/lib/tests/*.rs` (every `test!` / `error!` invocation whose
//! input is a string literal).

use std::path::Path;

#[derive(Clone, Debug)]
pub struct CorpusItem {
    pub file: String,
    pub name: String,
    pub input: String,
    /// expected CSS (test!) or first line of the error (error!)
    pub expected: Option<String>,
    pub is_error: bool,
    /// text of the options expression, "" when default
    pub opts: String,
}

impl CorpusItem {
    pub fn native_syntax(&self) -> &'static str {
        if self.opts.contains("InputSyntax::Sass") {
            "sass"
        } else if self.opts.contains("InputSyntax::Css") {
            "css"
        } else {
            "scss"
        }
    }
    pub fn uses_random(&self) -> bool {
        self.input.contains("random(") || self.input.contains("unique-id(") || self.input.contains("unique_id(")
    }
    pub fn default_opts(&self) -> bool {
        self.opts.trim().is_empty() || self.opts.trim() == "grass::Options::default()"
    }
}

struct Scan<'a> {
    s: &'a [u8],
    i: usize,
}

impl<'a> Scan<'a> {
    fn ws(&mut self) {
        loop {
            while self.i < self.s.len() && (self.s[self.i] as char).is_whitespace() {
                self.i += 1;
            }
            if self.s[self.i..].starts_with(b"//") {
                while self.i < self.s.len() && self.s[self.i] != b'\n' {
                    self.i += 1;
                }
            } else if self.s[self.i..].starts_with(b"/*") {
                while self.i < self.s.len() && !self.s[self.i..].starts_with(b"*/") {
                    self.i += 1;
                }
                self.i = (self.i + 2).min(self.s.len());
            } else {
                break;
            }
        }
    }

    fn peek(&self) -> u8 {
        *self.s.get(self.i).unwrap_or(&0)
    }

    fn ident(&mut self) -> Option<String> {
        let st = self.i;
        while self.i < self.s.len() && (self.s[self.i].is_ascii_alphanumeric() || self.s[self.i] == b'_') {
            self.i += 1;
        }
        if st == self.i {
            None
        } else {
            Some(String::from_utf8_lossy(&self.s[st..self.i]).into_owned())
        }
    }

    /// Parse a Rust string literal (normal or raw) at the cursor.
    fn string_lit(&mut self) -> Option<String> {
        if self.peek() == b'"' {
            self.i += 1;
            let mut out = String::new();
            let text = std::str::from_utf8(&self.s[self.i..]).ok()?;
            let mut chars = text.char_indices().peekable();
            while let Some((off, c)) = chars.next() {
                match c {
                    '"' => {
                        self.i += off + 1;
                        return Some(out);
                    }
                    '\\' => {
                        let (_, e) = chars.next()?;
                        match e {
                            'n' => out.push('\n'),
                            't' => out.push('\t'),
                            'r' => out.push('\r'),
                            '0' => out.push('\0'),
                            '\\' => out.push('\\'),
                            '"' => out.push('"'),
                            '\'' => out.push('\''),
                            'x' => {
                                let (_, a) = chars.next()?;
                                let (_, b) = chars.next()?;
                                let v = u8::from_str_radix(&format!("{}{}", a, b), 16).ok()?;
                                out.push(v as char);
                            }
                            'u' => {
                                let (_, br) = chars.next()?;
                                if br != '{' {
                                    return None;
                                }
                                let mut hex = String::new();
                                loop {
                                    let (_, h) = chars.next()?;
                                    if h == '}' {
                                        break;
                                    }
                                    if h != '_' {
                                        hex.push(h);
                                    }
                                }
                                out.push(char::from_u32(u32::from_str_radix(&hex, 16).ok()?)?);
                            }
                            '\n' => {
                                while let Some(&(_, w)) = chars.peek() {
                                    if w.is_whitespace() {
                                        chars.next();
                                    } else {
                                        break;
                                    }
                                }
                            }
                            '\r' => {
                                while let Some(&(_, w)) = chars.peek() {
                                    if w.is_whitespace() {
                                        chars.next();
                                    } else {
                                        break;
                                    }
                                }
                            }
                            _ => return None,
                        }
                    }
                    c => out.push(c),
                }
            }
            None
        } else if self.peek() == b'r' && (self.s.get(self.i + 1) == Some(&b'"') || self.s.get(self.i + 1) == Some(&b'#')) {
            let mut j = self.i + 1;
            let mut hashes = 0;
            while self.s.get(j) == Some(&b'#') {
                hashes += 1;
                j += 1;
            }
            if self.s.get(j) != Some(&b'"') {
                return None;
            }
            j += 1;
            let mut close = vec![b'"'];
            close.extend(std::iter::repeat(b'#').take(hashes));
            let st = j;
            while j < self.s.len() && !self.s[j..].starts_with(&close) {
                j += 1;
            }
            if j >= self.s.len() {
                return None;
            }
            let out = String::from_utf8_lossy(&self.s[st..j]).into_owned();
            self.i = j + close.len();
            Some(out)
        } else {
            None
        }
    }

    /// Skip a balanced token tree starting at an opening bracket.
    fn skip_balanced(&mut self) -> bool {
        let mut depth = 0i32;
        while self.i < self.s.len() {
            let c = self.s[self.i];
            match c {
                b'(' | b'[' | b'{' => {
                    depth += 1;
                    self.i += 1;
                }
                b')' | b']' | b'}' => {
                    depth -= 1;
                    self.i += 1;
                    if depth == 0 {
                        return true;
                    }
                }
                b'"' => {
                    if self.string_lit().is_none() {
                        return false;
                    }
                }
                b'r' if self.s.get(self.i + 1) == Some(&b'"') || (self.s.get(self.i + 1) == Some(&b'#') && !self.s[self.i.saturating_sub(1)].is_ascii_alphanumeric()) => {
                    if self.string_lit().is_none() {
                        self.i += 1;
                    }
                }
                b'\'' => {
                    // char literal or lifetime: handle '"' and '\''
                    if self.s.get(self.i + 2) == Some(&b'\'') {
                        self.i += 3;
                    } else if self.s.get(self.i + 1) == Some(&b'\\') && self.s.get(self.i + 3) == Some(&b'\'') {
                        self.i += 4;
                    } else {
                        self.i += 1;
                    }
                }
                b'/' if self.s[self.i..].starts_with(b"//") || self.s[self.i..].starts_with(b"/*") => self.ws(),
                _ => self.i += 1,
            }
        }
        false
    }
}

pub fn extract_file(path: &Path) -> Vec<CorpusItem> {
    let text = match std::fs::read(path) {
        Ok(t) => t,
        Err(_) => return vec![],
    };
    let fname = path.file_name().unwrap().to_string_lossy().into_owned();
    let mut out = vec![];
    let mut sc = Scan { s: &text, i: 0 };
    while sc.i < text.len() {
        // find next macro start at a line start
        let rest = &text[sc.i..];
        let is_test = rest.starts_with(b"test!(");
        let is_err = rest.starts_with(b"error!(");
        let at_line_start = sc.i == 0 || text[sc.i - 1] == b'\n';
        if !(at_line_start && (is_test || is_err)) {
            sc.i += 1;
            continue;
        }
        let open = sc.i + if is_test { 5 } else { 6 };
        // compute the end of the invocation
        let mut endsc = Scan { s: &text, i: open };
        if !endsc.skip_balanced() {
            sc.i += 1;
            continue;
        }
        let end = endsc.i;
        sc.i = open + 1;
        let item = (|| {
            sc.ws();
            while sc.peek() == b'#' {
                sc.i += 1;
                sc.ws();
                if sc.peek() != b'[' || !sc.skip_balanced() {
                    return None;
                }
                sc.ws();
                if sc.peek() == b',' {
                    sc.i += 1;
                }
                sc.ws();
            }
            let name = sc.ident()?;
            sc.ws();
            if sc.peek() != b',' {
                return None;
            }
            sc.i += 1;
            sc.ws();
            let input = sc.string_lit()?;
            sc.ws();
            if sc.peek() != b',' {
                return None;
            }
            sc.i += 1;
            sc.ws();
            let expected = sc.string_lit();
            let mut opts = String::new();
            if expected.is_some() {
                sc.ws();
                if sc.peek() == b',' {
                    sc.i += 1;
                    if end > sc.i + 1 {
                        opts = String::from_utf8_lossy(&text[sc.i..end - 1]).trim().trim_end_matches(',').to_string();
                    }
                }
            }
            Some(CorpusItem {
                file: fname.clone(),
                name,
                input,
                expected,
                is_error: is_err,
                opts,
            })
        })();
        if let Some(it) = item {
            out.push(it);
        }
        sc.i = end;
    }
    out
}

pub fn extract(repo: &str) -> Vec<CorpusItem> {
    let dir = Path::new(repo).join("crates/lib/tests");
    let mut files: Vec<_> = match std::fs::read_dir(&dir) {
        Ok(rd) => rd.filter_map(|e| e.ok()).map(|e| e.path()).filter(|p| p.extension().map_or(false, |e| e == "rs")).collect(),
        Err(_) => vec![],
    };
    files.sort();
    let mut out = vec![];
    for f in files {
        out.extend(extract_file(&f));
    }
    out
}
