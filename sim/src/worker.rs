//! Worker process: executes units and explicit cases on request of the driver.
//! Protocol: JSON lines on stdin / on the saved stdout fd (fd 1 and 2 of the
//! worker are redirected into a memfd so that anything the library prints is
//! caught as a stdio leak).

use std::io::{BufRead, Write};
use std::os::fd::FromRawFd;
use std::sync::{Arc, Mutex};

use serde_json::{json, Value};

use crate::engine::{engine_by_name, Ctx};

pub const JOB_STACK: usize = 8 << 20;

pub fn worker_main(ctx: Ctx) {
    let proto = crate::job::capture_stdio();
    let out = Arc::new(Mutex::new(unsafe { std::fs::File::from_raw_fd(proto) }));
    crate::job::install_panic_hook();
    crate::job::init_custom_fns();
    grass_compiler::verif::force_lazies();
    grass_compiler::verif::set_point_callback(Some(crate::sched::hook_point));
    let stdin = std::io::stdin();
    let send = |out: &Arc<Mutex<std::fs::File>>, v: Value| {
        let mut line = v.to_string();
        line.push('\n');
        let mut g = out.lock().unwrap();
        let _ = g.write_all(line.as_bytes());
        let _ = g.flush();
    };
    send(&out, json!({"ready": true, "corpus": ctx.corpus.len()}));
    let mut mem_capped = false;
    for line in stdin.lock().lines() {
        let line = match line {
            Ok(l) => l,
            Err(_) => break,
        };
        if line.trim().is_empty() {
            continue;
        }
        let req: Value = match serde_json::from_str(&line) {
            Ok(v) => v,
            Err(e) => {
                send(&out, json!({"error": format!("bad request: {}", e)}));
                continue;
            }
        };
        let op = req.get("op").and_then(|o| o.as_str()).unwrap_or("");
        let ename = req.get("engine").and_then(|o| o.as_str()).unwrap_or("").to_string();
        let eng = match engine_by_name(&ename) {
            Some(e) => e,
            None => {
                send(&out, json!({"error": format!("unknown engine {}", ename)}));
                continue;
            }
        };
        if !mem_capped && ename != "sched" {
            // a runaway allocation (e.g. an underflowed loop bound pushing into a
            // String) must end in an abort of this worker, not in an OOM of the sandbox.
            // The sched engine maps a large NORESERVE range per run instead and
            // caps its deterministic heap itself.
            unsafe {
                let lim = libc::rlimit { rlim_cur: 10 << 30, rlim_max: 10 << 30 };
                libc::setrlimit(libc::RLIMIT_AS, &lim);
            }
            mem_capped = true;
        }
        match op {
            "unit" => {
                let unit = req.get("unit").and_then(|u| u.as_u64()).unwrap_or(0);
                let careful = req.get("careful").and_then(|u| u.as_bool()).unwrap_or(false);
                let skip: Vec<u64> = req.get("skip").and_then(|u| u.as_array()).map(|a| a.iter().filter_map(|x| x.as_u64()).collect()).unwrap_or_default();
                let ctx2 = ctx.clone();
                let out2 = out.clone();
                let h = std::thread::Builder::new().stack_size(eng.stack_bytes()).spawn(move || {
                    let mut progress = |idx: u64, mk: &dyn Fn() -> Value| -> bool {
                        if skip.contains(&idx) {
                            return false;
                        }
                        if careful {
                            let mut line = json!({"at": idx, "case": mk()}).to_string();
                            line.push('\n');
                            let mut g = out2.lock().unwrap();
                            let _ = g.write_all(line.as_bytes());
                            let _ = g.flush();
                        }
                        true
                    };
                    eng.run_unit(&ctx2, unit, &mut progress)
                });
                match h.map(|h| h.join()) {
                    Ok(Ok(r)) => send(&out, json!({"done": unit, "result": r.to_json()})),
                    Ok(Err(_)) => {
                        let p = crate::job::take_last_panic();
                        send(&out, json!({"error": format!("harness panic in unit {}: {:?}", unit, p)}))
                    }
                    Err(e) => send(&out, json!({"error": format!("spawn failed: {}", e)})),
                }
            }
            "exec" => {
                let case = req.get("case").cloned().unwrap_or(Value::Null);
                let ctx2 = ctx.clone();
                let h = std::thread::Builder::new().stack_size(eng.stack_bytes()).spawn(move || eng.exec(&ctx2, &case));
                match h.map(|h| h.join()) {
                    Ok(Ok(vs)) => send(&out, json!({"done": "exec", "violations": vs.iter().map(|v| v.to_json()).collect::<Vec<_>>()})),
                    Ok(Err(_)) => {
                        let p = crate::job::take_last_panic();
                        send(&out, json!({"error": format!("harness panic in exec: {:?}", p)}))
                    }
                    Err(e) => send(&out, json!({"error": format!("spawn failed: {}", e)})),
                }
            }
            "quit" => break,
            _ => send(&out, json!({"error": format!("unknown op {}", op)})),
        }
    }
}
