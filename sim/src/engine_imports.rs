//! C13: import search order, and only through the supplied Fs.
//!
//! The subject of the property is a seam (the Fs object) and its observable is
//! a call history: the simulator supplies the file system, records every call,
//! perturbs the real disk and working directory underneath, injects Fs faults,
//! and compares winner and history with a small executable model that is a
//! transcription of the property statement.

use std::collections::{BTreeMap, BTreeSet};

use serde_json::{json, Value};

use crate::case::{CanonMode, Entry, Fault, IoKind, JobSpec};
use crate::engine::{Ctx, Engine, Progress, UnitResult, Violation};
use crate::job::{run_job, JobResult, Outcome};
use crate::prng::{hash_bytes, mix, mix_str, Rng};
use crate::simfs::{normalize, FsOp};

pub struct Imports;

// ---------------------------------------------------------------- the model

pub fn dirname(p: &str) -> String {
    match p.rfind('/') {
        Some(0) => "/".into(),
        Some(i) => p[..i].to_string(),
        None => "".into(),
    }
}

pub fn basename(p: &str) -> String {
    match p.rfind('/') {
        Some(i) => p[i + 1..].to_string(),
        None => p.to_string(),
    }
}

fn join(a: &str, b: &str) -> String {
    if a.ends_with('/') {
        format!("{}{}", a, b)
    } else {
        format!("{}/{}", a, b)
    }
}

fn explicit_ext(url: &str) -> Option<&'static str> {
    for e in ["sass", "scss", "css"] {
        if url.ends_with(&format!(".{}", e)) {
            return Some(e);
        }
    }
    None
}

/// `exact(p)`: p or its partial
fn exact_names(p: &str) -> Vec<String> {
    vec![p.to_string(), join(&dirname(p), &format!("_{}", basename(p)))]
}

pub struct Model<'a> {
    pub files: &'a BTreeSet<String>,
    /// every path the search may legitimately ask the Fs about
    pub candidates: BTreeSet<String>,
}

impl<'a> Model<'a> {
    fn exact(&mut self, p: &str) -> Option<String> {
        let mut hit = None;
        for n in exact_names(p) {
            self.candidates.insert(n.clone());
            if hit.is_none() && self.files.contains(&n) {
                hit = Some(n);
            }
        }
        hit
    }

    /// extension APPENDED to the whole basename
    fn by_ext(&mut self, p: &str) -> Option<String> {
        let a = self.exact(&format!("{}.sass", p));
        let b = self.exact(&format!("{}.scss", p));
        // layouts with two are never generated
        let c = self.exact(&format!("{}.css", p));
        a.or(b).or(c)
    }

    fn with_ext(&mut self, p: &str, for_import: bool) -> Option<String> {
        let mut r = None;
        if for_import {
            r = self.by_ext(&format!("{}.import", p));
        }
        let r2 = self.by_ext(p);
        r.or(r2)
    }

    fn in_location(&mut self, p: &str, for_import: bool) -> Option<String> {
        if let Some(ext) = explicit_ext(p) {
            let stem = &p[..p.len() - ext.len() - 1];
            let mut r = None;
            if for_import {
                r = self.exact(&format!("{}.import.{}", stem, ext));
            }
            let r2 = self.exact(p);
            return r.or(r2);
        }
        // the directory itself may be asked about (is_dir) before the index lookup
        self.candidates.insert(p.to_string());
        let a = self.with_ext(p, for_import);
        let b = self.with_ext(&join(p, "index"), for_import);
        a.or(b)
    }

    /// Relative to the importing file first, then each load path in order;
    /// the first location that has a match wins.
    pub fn resolve(&mut self, cwd: &str, importer: &str, url: &str, load_paths: &[String], for_import: bool) -> Option<String> {
        let mut locs = vec![dirname(&normalize(cwd, importer))];
        for lp in load_paths {
            locs.push(normalize(cwd, lp));
        }
        let mut winner = None;
        for base in locs {
            let p = normalize("/", &join(&base, url));
            let m = self.in_location(&p, for_import);
            if winner.is_none() {
                winner = m;
            }
            // keep going: later locations are legitimate candidates only if no
            // earlier one matched, but asking about them is harmless; the
            // candidate set is the union (lenient on purpose)
        }
        winner
    }
}

// ---------------------------------------------------------------- cases

#[derive(Clone, Debug, PartialEq)]
pub struct ImportCase {
    pub job: JobSpec,
    /// path of the importing file, as a virtual path
    pub importer: String,
    pub url: String,
    /// "import" | "use" | "forward" | "load-css"
    pub directive: String,
    /// line (1-based) of the directive in the importing file
    pub line: usize,
    /// further (importer, url, for_import) pairs resolved on the way (entry -> mid)
    pub extra_urls: Vec<(String, String, bool)>,
    /// plain-CSS import forms in the entry that must be emitted, not loaded
    pub plain: Vec<String>,
    /// real files created under the scratch root before the run
    pub decoys: Vec<String>,
    pub root: String,
    /// a second importing file, in another directory, that loads the SAME URL text with
    /// the same directive later in the same compilation: each search starts from its own
    /// importer's directory
    pub twin: Option<String>,
}

impl ImportCase {
    fn to_json(&self) -> Value {
        json!({"job": self.job.to_json(), "importer": self.importer, "url": self.url, "directive": self.directive, "line": self.line,
            "extra_urls": self.extra_urls.iter().map(|(a, b, c)| json!([a, b, c])).collect::<Vec<_>>(),
            "plain": self.plain, "decoys": self.decoys, "root": self.root, "twin": self.twin})
    }
    fn from_json(v: &Value) -> Option<Self> {
        let strs = |k: &str| -> Vec<String> { v.get(k).and_then(|a| a.as_array()).map(|a| a.iter().filter_map(|s| s.as_str().map(String::from)).collect()).unwrap_or_default() };
        let mut extra = vec![];
        for e in v.get("extra_urls").and_then(|a| a.as_array()).cloned().unwrap_or_default() {
            extra.push((e.get(0)?.as_str()?.to_string(), e.get(1)?.as_str()?.to_string(), e.get(2)?.as_bool()?));
        }
        Some(ImportCase {
            job: JobSpec::from_json(v.get("job")?)?,
            importer: v.get("importer")?.as_str()?.to_string(),
            url: v.get("url")?.as_str()?.to_string(),
            directive: v.get("directive")?.as_str()?.to_string(),
            line: v.get("line")?.as_u64()? as usize,
            extra_urls: extra,
            plain: strs("plain"),
            decoys: strs("decoys"),
            root: v.get("root")?.as_str()?.to_string(),
            twin: v.get("twin").and_then(|t| t.as_str()).map(String::from),
        })
    }
    fn for_import(&self) -> bool {
        // the statement: "for @import the name.import.* variants are preferred"
        self.directive == "import"
    }
    fn feature(&self) -> &'static str {
        let b = basename(&self.url);
        let has_import_only = self.job.files.iter().any(|(p, _)| p.contains(".import."));
        if explicit_ext(&self.url).is_some() {
            if has_import_only {
                "import-only-explicit"
            } else {
                "explicit-ext"
            }
        } else if b.contains('.') {
            "dotted-basename"
        } else if has_import_only {
            if self.for_import() {
                "import-only"
            } else {
                "import-only-for-use"
            }
        } else {
            "plain"
        }
    }
}

/// The marker names the file by its path relative to the scratch root (whose
/// own name contains a pid and must not influence anything observed).
fn marker_id(path: &str, root: &str) -> String {
    let rel = path.strip_prefix(root).unwrap_or(path);
    format!("m{:08x}", hash_bytes(77, rel.as_bytes()) as u32)
}

fn marker_text(path: &str, root: &str) -> Vec<u8> {
    let id = marker_id(path, root);
    if path.ends_with(".sass") {
        format!(".{}\n  from: x\n", id).into_bytes()
    } else {
        format!(".{} {{ from: x; }}\n", id).into_bytes()
    }
}

/// `form` varies how a module-loading directive is written; the search it performs is the same.
fn directive_text(directive: &str, url: &str, sass: bool, form: u64) -> String {
    let semi = if sass { "" } else { ";" };
    match directive {
        // plain-CSS members next to the URL under test in one rule: they are emitted, never looked
        // up, and do not change how their neighbour is classified
        "import" => match form % 6 {
            1 => format!("@import \"zz-plain.css\", \"{}\"{}\n", url, semi),
            2 => format!("@import \"{}\", url(zz-plain.css){}\n", url, semi),
            3 => format!("@import \"//cdn.example/zz\", \"{}\", \"zz-plain.css\" screen{}\n", url, semi),
            _ => format!("@import \"{}\"{}\n", url, semi),
        },
        "use" => match form % 4 {
            1 => format!("@use \"{}\" as *{}\n", url, semi),
            _ => format!("@use \"{}\" as u{}\n", url, semi),
        },
        "forward" => match form % 6 {
            1 => format!("@forward \"{}\" as p-*{}\n", url, semi),
            2 => format!("@forward \"{}\" show nothing-at-all{}\n", url, semi),
            3 => format!("@forward \"{}\" hide nothing-at-all{}\n", url, semi),
            _ => format!("@forward \"{}\"{}\n", url, semi),
        },
        // the statement stays on line 3 in every form
        // (the URL is always passed by position: grass calls the parameter $module, Sass $url;
        // the property is about the search, not about the name of the parameter)
        _ => match form % 6 {
            1 => format!("@use \"sass:meta\"{}\n@include meta.load-css(\"{}\", $with: ()){}\n", semi, url, semi),
            2 => format!("@use \"sass:meta\"{}\n@include meta.load-css(\"{}\", $with: null){}\n", semi, url, semi),
            4 if !sass => format!("@use \"sass:meta\"; $u: \"{}\";\n@include meta.load-css($u, $with: ());\n", url),
            _ => format!("@use \"sass:meta\"{}\n@include meta.load-css(\"{}\"){}\n", semi, url, semi),
        },
    }
}

fn gen_case(rng: &mut Rng, root: &str) -> ImportCase {
    let mut job = JobSpec::default();
    job.cwd = root.to_string();
    job.eval_fuel = 1_000_000;
    job.canon = match rng.below(3) {
        0 => CanonMode::Identity,
        _ => CanonMode::Absolute,
    };
    job.compressed = rng.chance(0.3);
    job.unicode = rng.chance(0.6);
    let dir = *rng.pick(&["", "", "a", "a/b", "lp1"]);
    let directive = *rng.pick(&["import", "import", "use", "use", "forward", "load-css"]);
    // URL
    // ("httpx" and "urlish" only look like the beginning of a plain-CSS import)
    // names are taken as written: no URL decoding, no case folding, no trimming
    let name = if rng.chance(0.2) {
        *rng.pick(&["col%41", "my%20theme", "my theme", "a+b", "\u{fc}n\u{ef}", "Mixed.Case", "trail.", "100%", "q?x", "h#x"])
    } else {
        *rng.pick(&["foo", "foo", "bar", "foo.bar", "x.y.z", "lib", "httpx", "urlish"])
    };
    // (`../../` leaves the directory of an importer at the root by two levels: legal, and the
    // shape on which hand-written path normalisation goes wrong)
    let prefix = *rng.pick(&["", "", "", "", "sub/", "../", "./", "sub/../", "../../", "sub/../../"]);
    let mut suffix = *rng.pick(&["", "", "", "", ".scss", ".sass", ".css"]);
    if directive == "import" && suffix == ".css" {
        suffix = ""; // `@import "x.css"` is a plain-CSS import, tested separately
    }
    let url = format!("{}{}{}", prefix, name, suffix);
    // load paths
    let lp_pool = ["lp1", "lp2", "lp1/inner", "a", "lp1/../lp2", "./lp1", "lp2/"];
    let nlp = rng.below(4) as usize;
    #[allow(unused_mut)]
    let mut lps: Vec<String> = vec![];
    for _ in 0..nlp {
        let d = *rng.pick(&lp_pool);
        let s = if rng.chance(0.5) { d.to_string() } else { join(root, d) };
        if !lps.contains(&s) {
            lps.push(s);
        }
    }
    job.load_paths = lps.clone();
    job.extra_dirs = lp_pool.iter().map(|d| join(root, d)).collect();
    // importer: the entry itself, or a file the entry imports
    let via_mid = rng.chance(0.3);
    let importer_sass = rng.chance(0.25);
    let importer_ext = if importer_sass { "sass" } else { "scss" };
    // sometimes the importing file is itself an index file (a/imp/index.scss, reached as "a/imp"):
    // the search for the URL under test then starts in a/imp/
    let as_index = dir == "a" && rng.chance(0.3);
    let importer_rel = if as_index { format!("a/imp/index.{}", importer_ext) } else if dir.is_empty() { format!("imp.{}", importer_ext) } else { format!("{}/imp.{}", dir, importer_ext) };
    let importer = join(root, &importer_rel);
    let mut extra_urls = vec![];
    let mut files: Vec<(String, Vec<u8>)> = vec![];
    let mut body = String::new();
    if importer_sass {
        body.push_str("// importer\n");
    } else {
        body.push_str("/* importer */\n");
    }
    // @use / @forward must come first; a leading comment is allowed
    let nested = directive == "import" && rng.chance(0.2);
    if nested {
        // an @import nested in a style rule is resolved exactly like one at the top level
        if importer_sass {
            body.push_str(&format!(".wrap\n  @import \"{}\"\n", url));
        } else {
            body.push_str(&format!(".wrap {{ @import \"{}\"; }}\n", url));
        }
    } else {
        body.push_str(&directive_text(directive, &url, importer_sass, rng.below(12)));
    }
    let line = if directive == "load-css" { 3 } else if nested && importer_sass { 3 } else { 2 };
    files.push((importer.clone(), body.into_bytes()));
    let entry_path;
    if via_mid {
        // the entry reaches the importing file relatively (from the root) or through a
        // load path (the importer then sits in a load-path directory): either way the
        // search for the URL under test must start in the importer's own directory
        let entry = join(root, "main.scss");
        let mut mid_url = importer_rel.trim_end_matches(".scss").trim_end_matches(".sass").to_string();
        if as_index {
            mid_url = "a/imp".to_string();
        }
        if dir == "lp1" && rng.chance(0.7) {
            // found through the load path `lp1`, by its bare name
            if !lps.iter().any(|l| normalize(root, l) == join(root, "lp1")) {
                let pos = rng.usize_below(lps.len() + 1);
                lps.insert(pos, "lp1".to_string());
                job.load_paths = lps.clone();
            }
            mid_url = "imp".to_string();
        }
        // (through meta.load-css as well: the loaded file's own loads start in ITS directory)
        let mut how = rng.below(4);
        if how == 3 && directive == "load-css" {
            // grass evaluates a load-css'd file in the caller's module scope, so the file's own
            // `@use "sass:meta"` collides with the caller's: module semantics (C12), not the search
            how = 0;
        }
        let text = match how {
            0 => format!("@use \"{}\" as mid;\n", mid_url),
            3 => format!("@use \"sass:meta\";\n@include meta.load-css(\"{}\");\n", mid_url),
            _ => format!("@import \"{}\";\n", mid_url),
        };
        files.push((entry.clone(), text.into_bytes()));
        extra_urls.push((entry.clone(), mid_url, how != 0 && how != 3));
        entry_path = entry;
    } else {
        entry_path = importer.clone();
    }
    job.entry = Entry::Path(if rng.chance(0.5) { entry_path.clone() } else { entry_path[root.len() + 1..].to_string() });
    // candidate files: per location, per level, at most one member (ambiguous layouts are excluded)
    let mut locs = vec![dirname(&importer)];
    for lp in &lps {
        locs.push(normalize(root, lp));
    }
    let q = *rng.pick(&[0.15, 0.3, 0.5]);
    let mut existing: BTreeSet<String> = files.iter().map(|f| f.0.clone()).collect();
    for base in &locs {
        let p = normalize("/", &join(base, &url));
        let mut levels: Vec<Vec<String>> = vec![];
        if let Some(ext) = explicit_ext(&p) {
            let stem = &p[..p.len() - ext.len() - 1];
            levels.push(exact_names(&format!("{}.import.{}", stem, ext)));
            levels.push(exact_names(&p));
            // what an implementation that does not take the URL literally would pick:
            // another extension for the same stem, an extension appended once more, an index file
            if rng.chance(0.5) {
                let other = if ext == "scss" { "sass" } else { "scss" };
                levels.push(vec![format!("{}.{}", stem, other), format!("{}.scss", p), join(&p, "index.scss"), join(stem, "index.scss")]);
            }
        } else {
            for stem in [p.clone(), join(&p, "index")] {
                let mut sassy_io = exact_names(&format!("{}.import.sass", stem));
                sassy_io.extend(exact_names(&format!("{}.import.scss", stem)));
                levels.push(sassy_io);
                levels.push(vec![format!("{}.import.css", stem)]);
                let mut sassy = exact_names(&format!("{}.sass", stem));
                sassy.extend(exact_names(&format!("{}.scss", stem)));
                levels.push(sassy);
                levels.push(vec![format!("{}.css", stem)]);
                // the near-miss a wrong implementation would pick: extension
                // REPLACED instead of appended (never a legitimate candidate)
                if basename(&stem).contains('.') && rng.chance(0.5) {
                    let b = basename(&stem);
                    let cut = b.rfind('.').unwrap();
                    let wrong = join(&dirname(&stem), &format!("{}.scss", &b[..cut]));
                    levels.push(vec![wrong]);
                }
            }
        }
        // what an implementation that treats the URL as something to decode, fold or cut would
        // pick (never a legitimate candidate)
        let respelled: Vec<String> = [p.replace("%41", "A").replace("%20", " "), p.replace(' ', "%20"), p.replace('+', " "), p.to_lowercase(), p.split(|c| c == '?' || c == '#').next().unwrap_or("").to_string(), p.trim_end_matches('.').to_string()]
            .into_iter()
            .filter(|r| *r != p && !r.is_empty())
            .collect();
        if !respelled.is_empty() && rng.chance(0.7) {
            let r = rng.pick(&respelled).clone();
            levels.push(if explicit_ext(&p).is_some() { vec![r] } else { vec![format!("{}.scss", r), join(&dirname(&r), &format!("_{}.scss", basename(&r)))] });
        }
        for lv in levels {
            if rng.chance(q) {
                let f = rng.pick(&lv).clone();
                // a .css partial as the only candidate: the statement is silent; never generated
                if !existing.contains(&f) {
                    existing.insert(f.clone());
                    files.push((f.clone(), marker_text(&f, root)));
                }
            }
        }
    }
    job.files = files;
    ImportCase { job, importer, url, directive: directive.to_string(), line, extra_urls, plain: vec![], decoys: vec![], root: root.to_string(), twin: None }
}

/// Two importing files in different directories load the same URL text: `a/one` first,
/// then `b/two`. Whatever the first search found must not influence the second.
fn gen_twin_case(rng: &mut Rng, root: &str) -> ImportCase {
    let mut job = JobSpec::default();
    job.cwd = root.to_string();
    job.eval_fuel = 1_000_000;
    job.canon = if rng.chance(0.4) { CanonMode::Identity } else { CanonMode::Absolute };
    let directive = *rng.pick(&["import", "import", "use", "forward", "load-css"]);
    let name = *rng.pick(&["shared", "foo", "foo.bar", "lib"]);
    let prefix = *rng.pick(&["", "", "./", "sub/"]);
    let url = format!("{}{}", prefix, name);
    let one = join(root, "a/one.scss");
    let two = join(root, "b/two.scss");
    let entry = join(root, "main.scss");
    let reach = if rng.chance(0.5) { "@import \"a/one\";\n@import \"b/two\";\n".to_string() } else { "@use \"a/one\" as o;\n@use \"b/two\" as t;\n".to_string() };
    let for_reach = reach.starts_with("@import");
    let body = format!("/* importer */\n{}", directive_text(directive, &url, false, rng.below(12)));
    let mut files: Vec<(String, Vec<u8>)> = vec![(entry.clone(), reach.into_bytes()), (one.clone(), body.clone().into_bytes()), (two.clone(), body.into_bytes())];
    // sometimes a/one lists the URL twice in ONE rule (`@import "u", "u"` is two loads from the same file),
    // and b/two still follows
    if directive == "import" && rng.chance(0.3) {
        files[1].1 = format!("/* importer */\n@import \"{}\", \"{}\";\n", url, url).into_bytes();
    }
    let line = if directive == "load-css" { 3 } else { 2 };
    let mut lps: Vec<String> = vec![];
    for d in ["lp1", "lp2"] {
        if rng.chance(0.4) {
            lps.push(if rng.chance(0.5) { d.to_string() } else { join(root, d) });
        }
    }
    job.load_paths = lps.clone();
    job.extra_dirs = vec![join(root, "lp1"), join(root, "lp2"), join(root, "a"), join(root, "b")];
    let for_import = directive == "import";
    let mut existing: BTreeSet<String> = files.iter().map(|f| f.0.clone()).collect();
    let mut locs = vec![join(root, "a"), join(root, "b")];
    for lp in &lps {
        locs.push(normalize(root, lp));
    }
    for base in &locs {
        let p = normalize("/", &join(base, &url));
        let mut levels: Vec<Vec<String>> = vec![];
        for stem in [p.clone(), join(&p, "index")] {
            if for_import {
                let mut io = exact_names(&format!("{}.import.sass", stem));
                io.extend(exact_names(&format!("{}.import.scss", stem)));
                levels.push(io);
            }
            let mut sassy = exact_names(&format!("{}.sass", stem));
            sassy.extend(exact_names(&format!("{}.scss", stem)));
            levels.push(sassy);
            levels.push(vec![format!("{}.css", stem)]);
        }
        for lv in levels {
            if rng.chance(0.3) {
                let f = rng.pick(&lv).clone();
                if existing.insert(f.clone()) {
                    files.push((f.clone(), marker_text(&f, root)));
                }
            }
        }
    }
    job.files = files;
    job.entry = Entry::Path(if rng.chance(0.5) { entry.clone() } else { "main.scss".to_string() });
    let extra_urls = vec![(entry.clone(), "a/one".to_string(), for_reach), (entry, "b/two".to_string(), for_reach)];
    ImportCase { job, importer: one, url, directive: directive.to_string(), line, extra_urls, plain: vec![], decoys: vec![], root: root.to_string(), twin: Some(two) }
}

/// A file that `canonicalize` maps into another directory (a symbolic link): `lib/_y.scss` is
/// really `shared/_y.scss`. Next to it lives an ordinary file `lib/_x.scss`. Each of the two loads
/// one URL of its own (`xleaf`, `yleaf`). The statement does not say whether "the importing file"
/// of a linked file is the link or its target, and the check does not decide it; what it demands
/// is that the search made from a file does not depend on WHAT ELSE the compilation loaded before:
/// the entry loads x then y, y then x, only x, only y, and each file's own search has to ask the
/// same questions and pick the same winner every time. (`plain` carries the two entry lines.)
fn gen_link_case(rng: &mut Rng, root: &str) -> ImportCase {
    let mut job = JobSpec::default();
    job.cwd = root.to_string();
    job.eval_fuel = 1_000_000;
    let directive = *rng.pick(&["import", "import", "use", "forward", "load-css"]);
    let x = join(root, "lib/_x.scss");
    let y = join(root, "lib/_y.scss");
    let y_real = join(root, "shared/_y.scss");
    let entry = join(root, "main.scss");
    let by_use = rng.chance(0.4);
    let lines: Vec<String> = if by_use { vec!["@use \"lib/x\" as x;\n".into(), "@use \"lib/y\" as y;\n".into()] } else { vec!["@import \"lib/x\";\n".into(), "@import \"lib/y\";\n".into()] };
    let form = rng.below(12);
    let xb = format!("/* ordinary */\n{}", directive_text(directive, "xleaf", false, form));
    let yb = format!("/* linked */\n{}", directive_text(directive, "yleaf", false, form));
    let mut files: Vec<(String, Vec<u8>)> = vec![
        (entry.clone(), format!("{}{}", lines[0], lines[1]).into_bytes()),
        (x.clone(), xb.into_bytes()),
        (y.clone(), yb.clone().into_bytes()),
        (y_real.clone(), yb.into_bytes()),
    ];
    let mut lps: Vec<String> = vec![];
    if rng.chance(0.5) {
        lps.push(if rng.chance(0.5) { "lp1".to_string() } else { join(root, "lp1") });
    }
    lps.push(if rng.chance(0.5) { "lp2".to_string() } else { join(root, "lp2") });
    job.load_paths = lps.clone();
    job.extra_dirs = vec![join(root, "lp1"), join(root, "lp2"), join(root, "lib"), join(root, "shared")];
    for tag in ["xleaf", "yleaf"] {
        let mut forms: Vec<String> = vec![format!("_{}.scss", tag), format!("{}.scss", tag), format!("{}.sass", tag), format!("{}/index.scss", tag), format!("{}.css", tag)];
        if directive == "import" {
            forms.push(format!("{}.import.scss", tag));
        }
        for d in ["lib", "shared", "", "lp1"] {
            if rng.chance(0.5) {
                let f = join(&join(root, d), rng.pick(&forms[..]).as_str());
                let f = normalize("/", &f);
                files.push((f.clone(), marker_text(&f, root)));
            }
        }
        // the last load path always has a match: no search of a correct implementation fails
        let f = join(root, &format!("lp2/_{}.scss", tag));
        files.push((f.clone(), marker_text(&f, root)));
    }
    job.files = files;
    job.canon = CanonMode::Alias(vec![(y.clone(), y_real)]);
    job.entry = Entry::Path(if rng.chance(0.5) { entry } else { "main.scss".to_string() });
    let line = if directive == "load-css" { 3 } else { 2 };
    ImportCase { job, importer: x, url: "xleaf".into(), directive: format!("link:{}", directive), line, extra_urls: vec![], plain: lines, decoys: vec![], root: root.to_string(), twin: Some(y) }
}

/// What one variant of a link case shows about the search for `tag`.
fn link_observation(case: &ImportCase, r: &JobResult, tag: &str) -> String {
    let files: BTreeSet<String> = case.job.files.iter().map(|f| normalize(&case.job.cwd, &f.0)).collect();
    let by_marker: BTreeMap<String, String> = files.iter().map(|p| (marker_id(p, &case.root), p.clone())).collect();
    let rel = |p: &str| p.strip_prefix(case.root.as_str()).unwrap_or(p).to_string();
    let mut o = String::new();
    match &r.outcome {
        Outcome::Ok(css) => {
            let seen: Vec<String> = observed_markers(css).into_iter().map(|m| by_marker.get(&m).cloned().unwrap_or(m)).filter(|p| p.contains(tag)).map(|p| rel(&p)).collect();
            o.push_str(&format!("winner(s) {:?}", seen));
        }
        other => o.push_str(&format!("outcome {}", other.brief().replace(case.root.as_str(), "$ROOT"))),
    }
    let asked: Vec<String> = r.fs.iter().filter(|e| e.norm.contains(tag)).map(|e| format!("{}({})={}", e.op.name(), rel(&e.norm), if e.op == FsOp::Read { "…" } else { e.result.as_str() })).collect();
    o.push_str(&format!("; asked {:?}", asked));
    o
}

/// Runs the four variants of a link case and compares, per file, what its own search did.
fn judge_link(case: &ImportCase) -> (Vec<(String, String)>, Vec<(JobResult, Vec<String>)>) {
    let mut v: Vec<(String, String)> = vec![];
    let mut runs = vec![];
    let entry_norm = match &case.job.entry {
        Entry::Path(p) => normalize(&case.job.cwd, p),
        _ => String::new(),
    };
    let (lx, ly) = (case.plain.first().cloned().unwrap_or_default(), case.plain.get(1).cloned().unwrap_or_default());
    let variants: Vec<(&str, String, bool, bool)> = vec![("x then y", format!("{}{}", lx, ly), true, true), ("y then x", format!("{}{}", ly, lx), true, true), ("only x", lx.clone(), true, false), ("only y", ly.clone(), false, true)];
    let mut obs: Vec<(String, Option<String>, Option<String>)> = vec![];
    for (name, text, has_x, has_y) in &variants {
        let mut c = case.clone();
        for f in c.job.files.iter_mut() {
            if normalize(&case.job.cwd, &f.0) == entry_norm {
                f.1 = text.clone().into_bytes();
            }
        }
        let (r, breaches) = run_case(&c);
        if !breaches.is_empty() {
            v.push(("breach(realdisk)".into(), format!("[{}] a custom Fs was supplied, yet the compiling thread reached the real file system: {:?}", name, &breaches[..breaches.len().min(6)])));
        }
        match &r.outcome {
            Outcome::Panic { loc, msg } => v.push((format!("panic@{}", loc), format!("[{}] panicked: {}", name, msg))),
            Outcome::Hang { kind, site } => v.push((format!("hang({})@{}", kind, site), format!("[{}] did not terminate", name))),
            _ => {}
        }
        obs.push((name.to_string(), if *has_x { Some(link_observation(case, &r, "xleaf")) } else { None }, if *has_y { Some(link_observation(case, &r, "yleaf")) } else { None }));
        runs.push((r, breaches));
    }
    for (which, tag) in [(1usize, "xleaf"), (2usize, "yleaf")] {
        let have: Vec<(&String, &String)> = obs.iter().filter_map(|o| (if which == 1 { o.1.as_ref() } else { o.2.as_ref() }).map(|s| (&o.0, s))).collect();
        if let Some((n0, o0)) = have.first() {
            for (n, o) in have.iter().skip(1) {
                if o != o0 {
                    let who = if which == 1 { "the ordinary file lib/_x.scss" } else { "the linked file lib/_y.scss (canonical name shared/_y.scss)" };
                    v.push((format!("search-depends-on-earlier-loads[link,{}]", case.directive), format!("the search for {:?} made from {} differs with what else the entry loads:\n  [{}] {}\n  [{}] {}\nload paths {:?}", tag, who, n0, o0, n, o, case.job.load_paths)));
                    break;
                }
            }
        }
    }
    // the ordinary file is subject to the whole statement: its winner is the model's
    let files: BTreeSet<String> = case.job.files.iter().map(|f| normalize(&case.job.cwd, &f.0)).collect();
    let mut model = Model { files: &files, candidates: BTreeSet::new() };
    let inner = case.directive.trim_start_matches("link:");
    if let Some(w) = model.resolve(&case.job.cwd, &case.importer, "xleaf", &case.job.load_paths, inner == "import") {
        let rel = w.strip_prefix(case.root.as_str()).unwrap_or(&w).to_string();
        if let Some((_, Some(o), _)) = obs.iter().find(|o| o.0 == "only x") {
            if !o.starts_with(&format!("winner(s) [{:?}]", rel)) {
                v.push((format!("wrong-winner[link,{}]", case.directive), format!("{:?} from lib/_x.scss: the statement selects {} but: {}", "xleaf", rel, o)));
            }
        }
    }
    (v, runs)
}

fn gen_plain_case(rng: &mut Rng, root: &str) -> ImportCase {
    let mut job = JobSpec::default();
    job.cwd = root.to_string();
    job.canon = CanonMode::Identity;
    let forms: Vec<(&str, &str)> = vec![
        ("@import url(foo.css);", "foo.css"),
        ("@import url(\"foo\");", "foo"),
        ("@import \"http://example.com/foo\";", "http://example.com/foo"),
        ("@import \"https://example.com/foo.scss\";", "https://example.com/foo.scss"),
        ("@import \"//example.com/foo\";", "//example.com/foo"),
        ("@import \"foo.css\";", "foo.css"),
        ("@import \"foo\" screen;", "foo"),
        ("@import \"foo\" supports(display: grid);", "foo"),
        ("@import \"bar.css\" print;", "bar.css"),
        // the last path component is nothing but the extension
        ("@import \"theme/.css\";", "theme/.css"),
        // the shortest URLs of each plain-CSS form
        ("@import \"//a\";", "//a"),
        ("@import \"//ab\" print;", "//ab"),
        ("@import \"//a/b\";", "//a/b"),
        ("@import \"a.css\";", "a.css"),
        ("@import \".css\";", ".css"),
    ];
    let n = rng.range(1, 3) as usize;
    let mut text = String::new();
    let mut plain = vec![];
    for _ in 0..n {
        let (f, u) = *rng.pick(&forms);
        text.push_str(f);
        text.push('\n');
        plain.push(u.to_string());
    }
    text.push_str("a { b: c; }\n");
    let entry = join(root, "main.scss");
    let mut files = vec![(entry.clone(), text.into_bytes())];
    // files that a wrong classification would load
    for f in ["foo.css", "foo.scss", "_foo.scss", "bar.css", "foo.css.scss", "example.com/foo.scss", "theme/.css.scss", "theme/_.css.scss", "theme/.css"] {
        if rng.chance(0.6) {
            let p = join(root, f);
            files.push((p.clone(), marker_text(&p, root)));
        }
    }
    job.files = files;
    job.entry = Entry::Path(entry.clone());
    if rng.chance(0.5) {
        job.load_paths.push(root.to_string());
    }
    ImportCase { job, importer: entry, url: String::new(), directive: "plain".into(), line: 1, extra_urls: vec![], plain, decoys: vec![], root: root.to_string(), twin: None }
}

// ---------------------------------------------------------------- oracle

fn observed_markers(text: &str) -> Vec<String> {
    let mut out = vec![];
    let b = text.as_bytes();
    let mut i = 0;
    while i + 9 <= b.len() {
        if b[i] == b'm' && (i == 0 || b[i - 1] == b'.') && b[i + 1..i + 9].iter().all(|c| c.is_ascii_hexdigit()) {
            out.push(text[i..i + 9].to_string());
            i += 9;
        } else {
            i += 1;
        }
    }
    out
}

fn judge(case: &ImportCase, r: &JobResult, breaches: &[String]) -> Vec<(String, String)> {
    let mut v: Vec<(String, String)> = vec![];
    let feat = case.feature();
    if !breaches.is_empty() {
        v.push(("breach(realdisk)".into(), format!("a custom Fs was supplied, yet the compiling thread reached the real file system: {:?}", &breaches[..breaches.len().min(6)])));
    }
    if let Some(l) = &r.stdio_leak {
        v.push(("stdio-leak".into(), format!("wrote to stdout/stderr: {:?}", l)));
    }
    match &r.outcome {
        Outcome::Panic { loc, msg } => {
            v.push((format!("panic@{}", loc), format!("panicked: {}", msg)));
            return v;
        }
        Outcome::Hang { kind, site } => {
            v.push((format!("hang({})@{}", kind, site), "did not terminate".into()));
            return v;
        }
        _ => {}
    }
    let files: BTreeSet<String> = case.job.files.iter().map(|f| normalize(&case.job.cwd, &f.0)).collect();
    let by_marker: BTreeMap<String, String> = files.iter().map(|p| (marker_id(p, &case.root), p.clone())).collect();
    let faulted_read = r.fs.iter().any(|e| e.faulted && e.op == FsOp::Read);
    let mut model = Model { files: &files, candidates: BTreeSet::new() };
    let mut allowed_reads: BTreeSet<String> = BTreeSet::new();
    let entry_norm = match &case.job.entry {
        Entry::Path(p) => normalize(&case.job.cwd, p),
        _ => String::new(),
    };
    allowed_reads.insert(entry_norm.clone());
    for (imp, url, fi) in &case.extra_urls {
        if let Some(w) = model.resolve(&case.job.cwd, imp, url, &case.job.load_paths, *fi) {
            allowed_reads.insert(w);
        }
    }
    if case.directive == "plain" {
        // no Fs query at all beyond the entry; @import rules emitted
        for e in &r.fs {
            if e.norm != entry_norm {
                v.push(("plain-css-import-queried".into(), format!("plain-CSS imports {:?} must not touch the Fs, but {}({}) was called", case.plain, e.op.name(), e.path)));
                break;
            }
        }
        match &r.outcome {
            Outcome::Ok(css) => {
                if !observed_markers(css).is_empty() {
                    v.push(("plain-css-import-loaded".into(), format!("a plain-CSS import was loaded as Sass: output {:?}", css)));
                }
                for u in &case.plain {
                    if !css.contains("@import") || !css.contains(u.as_str()) {
                        v.push(("plain-css-import-not-emitted".into(), format!("plain-CSS import of {:?} is not in the output {:?}", u, css)));
                        break;
                    }
                }
            }
            Outcome::Err(e) => v.push(("plain-css-import-error".into(), format!("plain-CSS imports {:?} failed: {}", case.plain, e.display))),
            _ => {}
        }
        return v;
    }
    if let Some(twin) = &case.twin {
        // the tree may change between the two searches (a file appears or vanishes right after
        // the first load was read): each search is judged against the tree of its own moment
        let mut files2 = files.clone();
        for (i, f) in case.job.faults.iter().enumerate() {
            if !r.fired.get(i).copied().unwrap_or(false) {
                continue;
            }
            match f {
                Fault::Vanish { target: Some(t), .. } => {
                    files2.remove(&normalize(&case.job.cwd, t));
                }
                Fault::Appear { path, .. } => {
                    files2.insert(normalize(&case.job.cwd, path));
                }
                _ => {}
            }
        }
        let by_marker: BTreeMap<String, String> = files.iter().chain(files2.iter()).map(|p| (marker_id(p, &case.root), p.clone())).collect();
        let w1 = model.resolve(&case.job.cwd, &case.importer, &case.url, &case.job.load_paths, case.for_import());
        let mut model2 = Model { files: &files2, candidates: BTreeSet::new() };
        let w2 = model2.resolve(&case.job.cwd, twin, &case.url, &case.job.load_paths, case.for_import());
        model.candidates.extend(model2.candidates.iter().cloned());
        for w in [&w1, &w2].into_iter().flatten() {
            allowed_reads.insert(w.clone());
        }
        for e in &r.fs {
            let ok = match e.op {
                FsOp::Read => allowed_reads.contains(&e.norm),
                _ => model.candidates.contains(&e.norm) || allowed_reads.contains(&e.norm),
            };
            if !ok {
                v.push((format!("query-outside-candidates[twin,{}]", feat), format!("{}({}) is not a candidate of either search for {:?}", e.op.name(), e.path, case.url)));
                break;
            }
        }
        // each importer's own relative candidates must actually have been asked about
        // (unless the first search already failed): a search that is skipped shows as silence
        let asked = |imp: &str| r.fs.iter().any(|e| e.op != FsOp::Read && e.norm.starts_with(&format!("{}/", dirname(imp))) && e.norm != *imp);
        match &r.outcome {
            Outcome::Ok(css) => {
                let seen: Vec<String> = observed_markers(css).into_iter().map(|m| by_marker.get(&m).cloned().unwrap_or(m)).collect();
                match (&w1, &w2) {
                    (Some(a), Some(b)) => {
                        // `@import "u", "u"` in the first importer is two loads from that file
                        let dbl = case.job.files.iter().any(|(p, t)| normalize(&case.job.cwd, p) == normalize(&case.job.cwd, &case.importer) && String::from_utf8_lossy(t).contains(&format!("\"{}\", \"{}\"", case.url, case.url)));
                        let exp = if dbl { vec![a.clone(), a.clone(), b.clone()] } else { vec![a.clone(), b.clone()] };
                        let once = a == b && seen == vec![a.clone()];
                        if seen != exp && !once {
                            v.push((format!("wrong-winner[twin,{}]", feat), format!("@{} {:?} from {} and then from {} (load paths {:?}): the statement selects {} and {}, the output carries the markers of {:?}\nfiles: {:?}", case.directive, case.url, case.importer, twin, case.job.load_paths, a, b, seen, files)));
                        } else if !asked(twin) {
                            v.push((format!("search-skipped[twin,{}]", feat), format!("the second load of {:?} (from {}) never asked the Fs about a candidate in its own directory", case.url, twin)));
                        }
                    }
                    _ => v.push((format!("missing-import-error[twin,{}]", feat), format!("@{} {:?}: one of the two searches has no match by the statement ({:?}, {:?}), yet compilation succeeded with markers {:?}", case.directive, case.url, w1, w2, seen))),
                }
            }
            Outcome::Err(e) => {
                let site = if w1.is_none() { Some(&case.importer) } else if w2.is_none() { Some(twin) } else { None };
                match site {
                    None => {
                        if !faulted_read {
                            v.push((format!("unexpected-error[twin,{}]", feat), format!("both searches for {:?} have a match ({:?}, {:?}) but compilation failed: {}", case.url, w1, w2, e.display)));
                        }
                    }
                    Some(imp) => {
                        if !faulted_read && (e.kind != "parse" || normalize(&case.job.cwd, &e.file) != normalize(&case.job.cwd, imp) || e.line != case.line) {
                            v.push(("error-not-at-import-site".into(), format!("no match for {:?} from {}: expected an error at {}:{}, got kind={} at {}:{} — {}", case.url, imp, imp, case.line, e.kind, e.file, e.line, e.message)));
                        }
                    }
                }
            }
            _ => {}
        }
        return v;
    }
    let winner = model.resolve(&case.job.cwd, &case.importer, &case.url, &case.job.load_paths, case.for_import());
    if let Some(w) = &winner {
        allowed_reads.insert(w.clone());
    }
    // (ii) history: every query is a candidate of the search; reads only of winners
    for e in &r.fs {
        let ok = match e.op {
            FsOp::Read => allowed_reads.contains(&e.norm),
            _ => model.candidates.contains(&e.norm) || allowed_reads.contains(&e.norm),
        };
        if !ok {
            let class = if e.op == FsOp::Read { "read-non-winner" } else { "query-outside-candidates" };
            v.push((format!("{}[{}]", class, feat), format!("{}({}) is not a candidate of the search for {:?} from {} (load paths {:?}); model winner {:?}", e.op.name(), e.path, case.url, case.importer, case.job.load_paths, winner)));
            break;
        }
    }
    // (i) winner, read off the marker
    match (&r.outcome, &winner) {
        (Outcome::Ok(css), Some(w)) => {
            let seen: Vec<String> = observed_markers(css).into_iter().map(|m| by_marker.get(&m).cloned().unwrap_or(m)).collect();
            if seen.len() != 1 || &seen[0] != w {
                v.push((format!("wrong-winner[{}]", feat), format!("@{} {:?} from {} with load paths {:?}: the statement selects {} but the output carries the marker(s) of {:?}\nfiles: {:?}", case.directive, case.url, case.importer, case.job.load_paths, w, seen, files)));
            }
        }
        (Outcome::Ok(css), None) => {
            let seen: Vec<String> = observed_markers(css).into_iter().map(|m| by_marker.get(&m).cloned().unwrap_or(m)).collect();
            v.push((format!("missing-import-error[{}]", feat), format!("@{} {:?} from {} has no match by the statement, yet compilation succeeded with markers {:?}\nfiles: {:?}", case.directive, case.url, case.importer, seen, files)));
        }
        (Outcome::Err(e), Some(w)) => {
            if !faulted_read {
                v.push((format!("unexpected-error[{}]", feat), format!("@{} {:?} from {}: the statement selects {} but compilation failed: {}\nfiles: {:?}", case.directive, case.url, case.importer, w, e.display, files)));
            }
        }
        (Outcome::Err(_), None) if faulted_read => {}
        (Outcome::Err(e), None) => {
            // an error at the import site: in the importing file, on the directive's line
            let imp_norm = normalize(&case.job.cwd, &case.importer);
            let file_ok = normalize(&case.job.cwd, &e.file) == imp_norm;
            if e.kind != "parse" || !file_ok || e.line != case.line {
                v.push(("error-not-at-import-site".into(), format!("no match for {:?}: expected an error at {}:{}, got kind={} at {}:{}:{} — {}", case.url, case.importer, case.line, e.kind, e.file, e.line, e.col, e.message)));
            } else if let Some(p) = &e.loc_problem {
                v.push(("error-location-invalid".into(), p.clone()));
            }
        }
        _ => {}
    }
    // (iv) under a read fault: never another file's data
    if faulted_read {
        if let Outcome::Ok(css) = &r.outcome {
            v.push(("wrong-data-under-fault".into(), format!("the read of the winner failed, yet compilation returned Ok: {:?}", css)));
        }
    }
    v
}

fn scratch_root(ctx: &Ctx) -> String {
    format!("{}/scratch/imports/{}", ctx.target, std::process::id())
}

fn place_decoys(case: &ImportCase) {
    for d in &case.decoys {
        if let Some(par) = std::path::Path::new(d).parent() {
            let _ = std::fs::create_dir_all(par);
        }
        let _ = std::fs::write(d, b".decoy { from: realdisk; }\n");
    }
}

fn remove_decoys(case: &ImportCase) {
    for d in &case.decoys {
        let _ = std::fs::remove_file(d);
    }
}

/// Run one case with the real-disk monitor armed and decoys in place.
fn run_case(case: &ImportCase) -> (JobResult, Vec<String>) {
    place_decoys(case);
    let _ = std::env::set_current_dir(&case.root);
    let _ = crate::seams::take_breaches();
    crate::seams::set_confined(true);
    let r = run_job(&case.job);
    crate::seams::set_confined(false);
    let b = crate::seams::take_breaches();
    remove_decoys(case);
    (r, b)
}

impl Imports {
    fn one(&self, case: &ImportCase, res: &mut UnitResult) {
        if case.directive.starts_with("link:") {
            let (viol, runs) = judge_link(case);
            for (r, breaches) in &runs {
                res.fold_job_in(r, &case.root);
                res.fold(format!("{:?}", breaches).replace(&case.root, "$ROOT").as_bytes());
                res.bump("evaluations", 1);
                res.bump("fault_free_runs", 1);
                res.bump("fs_calls_recorded", r.fs.len() as u64);
                if r.fs.iter().any(|e| e.op == FsOp::Canon && e.result.starts_with("ok:") && !e.result.ends_with(&e.norm)) {
                    res.bump("probe.canonicalize_mapped_a_file_into_another_directory", 1);
                }
            }
            res.bump(&format!("directive.{}", case.directive), 1);
            res.distinct.push(hash_bytes(13, json!([case.directive, case.job.load_paths, case.job.files.iter().map(|f| &f.0).collect::<Vec<_>>()]).to_string().as_bytes()));
            for (class, detail) in viol {
                res.violations.push(Violation { property: "C13".into(), class, detail, case: case.to_json() });
            }
            return;
        }
        let (r, breaches) = run_case(case);
        res.fold_job_in(&r, &case.root);
        res.fold(format!("{:?}", breaches).replace(&case.root, "$ROOT").as_bytes());
        res.bump("evaluations", 1);
        res.bump(&format!("directive.{}", case.directive), 1);
        if case.twin.is_some() {
            res.bump("probe.same_url_loaded_from_two_directories", 1);
        }
        res.bump(&format!("feature.{}", case.feature()), 1);
        if case.job.faults.is_empty() {
            res.bump("fault_free_runs", 1);
        } else {
            res.bump("faulted_runs", 1);
        }
        for (i, f) in case.job.faults.iter().enumerate() {
            if r.fired.get(i).copied().unwrap_or(false) {
                res.bump(&format!("fired.{}", f.kind()), 1);
            }
        }
        if !case.decoys.is_empty() {
            res.bump("runs_with_real_disk_decoys", 1);
        }
        match &r.outcome {
            Outcome::Ok(_) => res.bump("outcome.ok", 1),
            Outcome::Err(_) => res.bump("outcome.err", 1),
            _ => res.bump("outcome.crash", 1),
        }
        res.bump("fs_calls_recorded", r.fs.len() as u64);
        let nfiles = case.job.files.len();
        if nfiles >= 4 {
            res.bump("probe.layouts_with_3plus_candidate_files", 1);
        }
        if r.fs.iter().any(|e| e.op == FsOp::IsDir && e.result == "true") {
            res.bump("probe.index_lookup_reached", 1);
        }
        // distinct layouts: URL, directive, importer location, load paths, file set, faults
        let layout = json!([case.url, case.directive, case.importer, case.job.load_paths, case.job.files.iter().map(|f| &f.0).collect::<Vec<_>>(), case.job.faults.iter().map(|f| f.to_json()).collect::<Vec<_>>(), case.plain]);
        if nfiles >= 2 || !case.plain.is_empty() {
            res.distinct.push(hash_bytes(13, layout.to_string().as_bytes()));
        }
        for (class, detail) in judge(case, &r, &breaches) {
            res.violations.push(Violation { property: "C13".into(), class, detail, case: case.to_json() });
        }
        if res.samples.len() < 3 && nfiles >= 3 {
            res.samples.push(json!({"url": case.url, "directive": case.directive, "importer": case.importer, "load_paths": case.job.load_paths,
                "files": case.job.files.iter().map(|f| f.0.clone()).collect::<Vec<_>>(), "outcome": r.outcome.brief().chars().take(120).collect::<String>(),
                "fs_history": r.fs.iter().map(|e| format!("{}({})={}", e.op.name(), e.path, e.result)).collect::<Vec<_>>()}));
        }
    }
}

impl Engine for Imports {
    fn name(&self) -> &'static str {
        "imports"
    }
    fn property(&self) -> &'static str {
        "C13"
    }
    fn level(&self) -> &'static str {
        "exploration"
    }
    fn units(&self, ctx: &Ctx) -> u64 {
        if ctx.tier == "thorough" {
            60_000
        } else {
            6_000
        }
    }
    fn run_unit(&self, ctx: &Ctx, unit: u64, progress: Progress) -> UnitResult {
        let mut res = UnitResult::default();
        let mut rng = Rng::new(mix(mix_str(ctx.seed, "imports"), unit));
        let root = scratch_root(ctx);
        let _ = std::fs::create_dir_all(&root);
        let mut idx = 0u64;
        for _ in 0..40 {
            let pick = rng.below(100);
            let mut case = if pick < 12 { gen_plain_case(&mut rng, &root) } else if pick < 30 { gen_twin_case(&mut rng, &root) } else if pick < 38 { gen_link_case(&mut rng, &root) } else { gen_case(&mut rng, &root) };
            if case.directive.starts_with("link:") {
                let i = idx;
                idx += 1;
                let c2 = case.clone();
                if progress(i, &move || c2.to_json()) {
                    self.one(&case, &mut res);
                }
                continue;
            }
            // decoys: real files at the paths of absent virtual candidates
            if rng.chance(0.3) {
                let files: BTreeSet<String> = case.job.files.iter().map(|f| f.0.clone()).collect();
                let mut m = Model { files: &files, candidates: BTreeSet::new() };
                if case.directive != "plain" {
                    m.resolve(&case.job.cwd, &case.importer, &case.url, &case.job.load_paths, true);
                }
                let mut cands: Vec<String> = m.candidates.iter().filter(|c| !files.contains(*c) && (c.ends_with(".scss") || c.ends_with(".sass") || c.ends_with(".css"))).cloned().collect();
                if case.directive == "plain" {
                    cands = vec![join(&root, "foo.scss"), join(&root, "foo.css"), join(&root, "_foo.scss")].into_iter().filter(|c| !files.contains(c)).collect();
                }
                cands.retain(|c| c.starts_with(&format!("{}/", root)));
                rng.shuffle(&mut cands);
                cands.truncate(5);
                case.decoys = cands;
            }
            let mut variants = vec![case.clone()];
            // twin layouts: the tree changes between the first and the second search
            if let (Some(twin), true) = (case.twin.clone(), rng.chance(0.5)) {
                let (r0, _) = run_case(&case);
                let entry_norm = match &case.job.entry {
                    Entry::Path(p) => normalize(&case.job.cwd, p),
                    _ => String::new(),
                };
                let _ = entry_norm;
                let twin_norm = normalize(&case.job.cwd, &twin);
                // the moment of the change: when the second importer is being read, i.e. after
                // everything the first importer loaded and before the second search begins
                if let Some(e) = r0.fs.iter().find(|e| e.op == FsOp::Read && e.norm == twin_norm && e.result.starts_with("ok:")) {
                    let files: BTreeSet<String> = case.job.files.iter().map(|f| normalize(&case.job.cwd, &f.0)).collect();
                    let mut m1 = Model { files: &files, candidates: BTreeSet::new() };
                    let w1 = m1.resolve(&case.job.cwd, &case.importer, &case.url, &case.job.load_paths, case.for_import());
                    let mut m2 = Model { files: &files, candidates: BTreeSet::new() };
                    m2.resolve(&case.job.cwd, &twin, &case.url, &case.job.load_paths, case.for_import());
                    let mut c = case.clone();
                    if let (Some(w1), true) = (w1, rng.chance(0.5)) {
                        // the first winner is gone when the second search runs
                        c.job.faults = vec![Fault::Vanish { at: e.k, target: Some(w1) }];
                        variants.push(c);
                    } else {
                        // a candidate of the second search appears, in a directory that holds no other
                        // candidate (two same-priority candidates side by side are outside the property)
                        let occupied: BTreeSet<String> = m2.candidates.iter().filter(|p| files.contains(*p)).map(|p| dirname(p)).collect();
                        let mut fresh: Vec<String> = m2.candidates.iter().filter(|p| !files.contains(*p) && (p.ends_with(".scss") || p.ends_with(".sass")) && !occupied.contains(&dirname(p)) && p.starts_with(&format!("{}/", root))).cloned().collect();
                        if !case.for_import() {
                            fresh.retain(|p| !p.contains(".import."));
                        }
                        if !fresh.is_empty() {
                            let p = rng.pick(&fresh).clone();
                            c.job.faults = vec![Fault::Appear { at: e.k, path: p.clone(), bytes: marker_text(&p, &root) }];
                            variants.push(c);
                        }
                    }
                }
            }
            // faults on the Fs calls of the search
            if case.directive != "plain" && rng.chance(0.4) {
                let (r0, _) = run_case(&case);
                for e in &r0.fs {
                    if e.op == FsOp::Read && normalize(&case.job.cwd, &e.path) != normalize(&case.job.cwd, &case.importer) && rng.chance(0.7) {
                        let mut c = case.clone();
                        c.job.faults = vec![Fault::ReadErr { at: e.k, kind: *rng.pick(&[IoKind::NotFound, IoKind::PermissionDenied, IoKind::Other]) }];
                        variants.push(c);
                    }
                    if e.op == FsOp::Canon && rng.chance(0.5) {
                        let mut c = case.clone();
                        c.job.faults = vec![Fault::CanonErr { at: e.k }];
                        variants.push(c);
                    }
                    if rng.chance(0.05) {
                        let mut c = case.clone();
                        c.job.faults = vec![Fault::Stall { at: e.k, latency: 10_000 }];
                        variants.push(c);
                    }
                }
            }
            for c in variants {
                let i = idx;
                idx += 1;
                let c2 = c.clone();
                if !progress(i, &move || c2.to_json()) {
                    continue;
                }
                self.one(&c, &mut res);
            }
        }
        res
    }
    fn exec(&self, ctx: &Ctx, case: &Value) -> Vec<Violation> {
        let c = match ImportCase::from_json(case) {
            Some(c) => c,
            None => return vec![Violation { property: "C13".into(), class: "bad-case".into(), detail: "unparsable case".into(), case: case.clone() }],
        };
        let _ = ctx;
        let _ = std::fs::create_dir_all(&c.root);
        if c.directive.starts_with("link:") {
            return judge_link(&c).0.into_iter().map(|(class, detail)| Violation { property: "C13".into(), class, detail, case: case.clone() }).collect();
        }
        let (r, breaches) = run_case(&c);
        judge(&c, &r, &breaches).into_iter().map(|(class, detail)| Violation { property: "C13".into(), class, detail, case: case.clone() }).collect()
    }
    fn shrink(&self, case: &Value) -> Vec<Value> {
        let c = match ImportCase::from_json(case) {
            Some(c) => c,
            None => return vec![],
        };
        let mut out = vec![];
        // drop candidate files (never the importer / entry)
        let keep: BTreeSet<String> = {
            let mut k = BTreeSet::new();
            k.insert(c.importer.clone());
            if let Entry::Path(p) = &c.job.entry {
                k.insert(normalize(&c.job.cwd, p));
            }
            k
        };
        for i in 0..c.job.files.len() {
            if keep.contains(&c.job.files[i].0) {
                continue;
            }
            let mut d = c.clone();
            d.job.files.remove(i);
            out.push(d.to_json());
        }
        for i in 0..c.job.load_paths.len() {
            let mut d = c.clone();
            d.job.load_paths.remove(i);
            out.push(d.to_json());
        }
        if !c.decoys.is_empty() {
            let mut d = c.clone();
            d.decoys.clear();
            out.push(d.to_json());
        }
        if !c.job.faults.is_empty() {
            let mut d = c.clone();
            d.job.faults.clear();
            out.push(d.to_json());
        }
        if c.job.canon != CanonMode::Identity {
            let mut d = c.clone();
            d.job.canon = CanonMode::Identity;
            out.push(d.to_json());
        }
        if c.plain.len() > 1 {
            // cannot drop lines without re-rendering; leave as is
        }
        out
    }
    fn rule(&self) -> String {
        "seeded layouts: importing file at one of three depths (directly the entry, or reached from the entry), URL = {foo,bar,foo.bar,x.y.z,lib} x prefix {none,sub/,../,./,sub/../} x suffix {none,.scss,.sass,.css}, directive in {@import,@use,@forward,meta.load-css}, 0-3 load paths (relative or absolute, some nested); per search location and per priority level of the statement at most one candidate file is materialised (ambiguous layouts excluded) with probability 0.15/0.3/0.5, plus the near-miss file a replace-the-extension implementation would pick; 12% of layouts are plain-CSS import forms next to files a wrong classification would load. 30% of runs place decoy files on the real disk at the paths of absent candidates, with the real cwd equal to the virtual one. Faults: read_err on the winner after is_file said yes, canon_err, stall. Non-trivial = at least one candidate file besides the importer (or a plain-CSS case); distinct by (URL, directive, importer, load paths, file set, faults).".into()
    }
    fn assumptions(&self) -> Vec<String> {
        vec![
            "the model is a transcription of the property statement; layouts on which the statement is silent are not generated (a `_name.css` partial, absolute URLs, other schemes, trailing slashes, non-UTF-8 names, two same-priority candidates in one location)".into(),
            "the candidate set used by the history oracle is lenient: the union over all locations, including `_name.css` and the directory itself".into(),
            "confinement is observed by in-executable definitions of open*/stat*/statx/access/readlink/realpath/getcwd/opendir; a breach made through a raw syscall instruction would be invisible".into(),
        ]
    }
    fn extra_evidence(&self, stats: &BTreeMap<String, u64>) -> Value {
        let mut fired = serde_json::Map::new();
        for (k, v) in stats {
            if let Some(kind) = k.strip_prefix("fired.") {
                fired.insert(kind.to_string(), json!(v));
            }
        }
        json!({
            "faults_fired_by_kind": fired,
            "fault_free_runs": stats.get("fault_free_runs").copied().unwrap_or(0),
            "faulted_runs": stats.get("faulted_runs").copied().unwrap_or(0),
            "simulated_time": "not applicable (single-threaded search; stall faults only lengthen one simulated Fs latency)",
            "real_vs_stub": {"real": ["import search (find_import), parsers, evaluator, serializer"], "stub": ["Fs (SimFs with recorder)", "real disk underneath: decoys + monitor"]},
        })
    }
}
