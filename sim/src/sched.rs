//! Token-passing scheduler over real OS threads.
//!
//! Every simulated client is a real `std::thread` (so thread-locals, per-thread
//! hash keys and stacks are the real thing). Exactly one holds the run token;
//! the others are parked on their own condvar. At every scheduling point the
//! running thread asks the scheduler who runs next; the choice comes from the
//! run's PRNG (or from a recorded decision list on replay). Simulated time is a
//! discrete-event clock that only the simulator reads.

use std::cell::RefCell;
use std::collections::BTreeMap;
use std::sync::{Arc, Condvar, Mutex};

use crate::prng::Rng;

#[derive(Clone, Copy, Debug, PartialEq, Eq)]
pub enum PointKind {
    Fs,
    Log,
    Yield,
    Hook,
    JobStart,
    JobEnd,
    ThreadEnd,
}

#[derive(Clone, Debug, PartialEq)]
pub enum Policy {
    /// never preempt: each thread runs to completion, thread order random
    Serial,
    /// switch with probability p at coarse points, p/64 at hook points
    Random(f64),
    /// random priorities, `d` priority-change points among the first `horizon` points
    Pct { d: usize, horizon: u64 },
    /// event-queue order: always run the thread with the smallest ready time
    Latency,
    /// only the recorded decisions
    Replay,
}

impl Policy {
    pub fn name(&self) -> String {
        match self {
            Policy::Serial => "serial".into(),
            Policy::Random(p) => format!("random({})", p),
            Policy::Pct { d, .. } => format!("pct({})", d),
            Policy::Latency => "latency".into(),
            Policy::Replay => "replay".into(),
        }
    }
}

/// One context switch: thread `from` (usize::MAX = the controller, at start),
/// at its `ordinal`-th scheduling point, handed the token to `to`.
#[derive(Clone, Debug, PartialEq, Eq)]
pub struct Switch {
    pub from: usize,
    pub ordinal: u64,
    pub to: usize,
    pub kind: &'static str,
}

#[derive(Debug)]
struct TState {
    done: bool,
    started: bool,
    ready_at: u64,
    ordinal: u64,
    prio: u64,
}

#[derive(Debug)]
struct State {
    now: u64,
    running: Option<usize>,
    threads: Vec<TState>,
    policy: Policy,
    rng: Rng,
    log: Vec<Switch>,
    replay: BTreeMap<(usize, u64), usize>,
    pct_points: Vec<u64>,
    total_points: u64,
    points_by_kind: [u64; 7],
    all_done: bool,
}

#[derive(Debug)]
pub struct Sched {
    st: Mutex<State>,
    cvs: Vec<Condvar>,
    ctl: Condvar,
}

thread_local! {
    static CUR: RefCell<Option<(Arc<Sched>, usize)>> = const { RefCell::new(None) };
    /// (ordinal of the last scheduling point on this thread, ordinal at which
    /// a hook point must consult the scheduler again)
    static PT: std::cell::Cell<(u64, u64)> = const { std::cell::Cell::new((0, 0)) };
}

pub fn current_tid() -> usize {
    CUR.with(|c| c.borrow().as_ref().map(|x| x.1).unwrap_or(usize::MAX))
}

/// A scheduling point. No-op on threads the simulator does not own.
pub fn point(kind: PointKind, latency: u64) {
    // hot path: interner and counter hooks fire hundreds of thousands of times
    // per run; between two consultations of the scheduler they only count
    let (ord, next) = PT.with(|p| p.get());
    if kind == PointKind::Hook && next == 0 {
        return; // not a simulated thread
    }
    let ord = ord + 1;
    if kind == PointKind::Hook && ord < next {
        PT.with(|p| p.set((ord, next)));
        return;
    }
    let cur = CUR.with(|c| c.borrow().clone());
    if let Some((s, tid)) = cur {
        let next = s.at_point(tid, kind, latency, ord);
        PT.with(|p| p.set((ord, next)));
    }
}

/// H1 callback installed into grass_compiler::verif.
pub fn hook_point(site: &'static str) {
    if site == "interner" {
        // hot: fine-grained, consulted rarely
        point(PointKind::Hook, 0);
    } else {
        // operations on the process-global counters are few and are exactly where a
        // read-modify-write race would sit: treat them as coarse points
        point(PointKind::Yield, 0);
    }
}

#[derive(Clone, Debug, Default)]
pub struct SchedStats {
    pub switches: Vec<Switch>,
    pub total_points: u64,
    pub points_by_kind: [u64; 7],
    pub sim_time: u64,
}

fn kind_idx(k: PointKind) -> usize {
    match k {
        PointKind::Fs => 0,
        PointKind::Log => 1,
        PointKind::Yield => 2,
        PointKind::Hook => 3,
        PointKind::JobStart => 4,
        PointKind::JobEnd => 5,
        PointKind::ThreadEnd => 6,
    }
}

pub const KIND_NAMES: [&str; 7] = ["fs", "log", "yield", "hook", "job_start", "job_end", "thread_end"];

impl Sched {
    pub fn new(nthreads: usize, policy: Policy, seed: u64, replay: &[Switch]) -> Arc<Sched> {
        let mut rng = Rng::new(seed);
        let mut threads = vec![];
        for _ in 0..nthreads {
            threads.push(TState { done: false, started: false, ready_at: 0, ordinal: 0, prio: 1000 + rng.below(1_000_000) });
        }
        let mut pct_points = vec![];
        if let Policy::Pct { d, horizon } = &policy {
            for _ in 0..*d {
                pct_points.push(rng.below(*horizon));
            }
        }
        let mut rp = BTreeMap::new();
        for s in replay {
            rp.insert((s.from, s.ordinal), s.to);
        }
        Arc::new(Sched {
            st: Mutex::new(State {
                now: 0,
                running: None,
                threads,
                policy,
                rng,
                log: vec![],
                replay: rp,
                pct_points,
                total_points: 0,
                points_by_kind: [0; 7],
                all_done: nthreads == 0,
            }),
            cvs: (0..nthreads).map(|_| Condvar::new()).collect(),
            ctl: Condvar::new(),
        })
    }

    /// Choose the next thread to run. `me` = the thread at the point (None for
    /// the controller / a finished thread).
    fn choose(st: &mut State, me: Option<usize>, kind: PointKind) -> Option<usize> {
        let alive: Vec<usize> = (0..st.threads.len()).filter(|&i| !st.threads[i].done).collect();
        if alive.is_empty() {
            return None;
        }
        let key = match me {
            Some(m) => (m, st.threads[m].ordinal),
            None => (usize::MAX, 0),
        };
        if let Some(&to) = st.replay.get(&key) {
            if alive.contains(&to) {
                return Some(to);
            }
        }
        let me_alive = me.filter(|m| !st.threads[*m].done);
        match st.policy.clone() {
            Policy::Replay => me_alive.or_else(|| alive.first().copied()),
            Policy::Serial => match me_alive {
                Some(m) => Some(m),
                None => Some(alive[st.rng.usize_below(alive.len())]),
            },
            Policy::Random(p) => match me_alive {
                Some(m) => {
                    // a hook point only reaches the scheduler when its geometrically drawn gap ran out
                    let p = if kind == PointKind::Hook { 1.0 } else { p };
                    if alive.len() > 1 && st.rng.chance(p) {
                        let others: Vec<usize> = alive.iter().copied().filter(|&i| i != m).collect();
                        Some(others[st.rng.usize_below(others.len())])
                    } else {
                        Some(m)
                    }
                }
                None => Some(alive[st.rng.usize_below(alive.len())]),
            },
            Policy::Pct { .. } => {
                if let Some(m) = me_alive {
                    if st.pct_points.contains(&st.total_points) {
                        // priority change point: the running thread drops below everyone
                        let low = st.threads.iter().map(|t| t.prio).min().unwrap_or(1);
                        st.threads[m].prio = low.saturating_sub(1);
                    }
                }
                alive.iter().copied().max_by_key(|&i| st.threads[i].prio)
            }
            Policy::Latency => alive.iter().copied().min_by_key(|&i| (st.threads[i].ready_at, st.threads[i].prio)),
        }
    }

    /// Ordinal at which thread `tid` has to consult the scheduler again at a hook point.
    fn next_consult(st: &mut State, tid: usize) -> u64 {
        let ord = st.threads[tid].ordinal;
        let mut next = u64::MAX;
        if let Some((&(_, o), _)) = st.replay.range((tid, ord + 1)..(tid, u64::MAX)).next() {
            next = next.min(o);
        }
        match st.policy.clone() {
            Policy::Random(p) => {
                // geometric gap with success probability p/64
                let q = (p / 64.0).clamp(1e-9, 1.0);
                let u = ((st.rng.next_u64() >> 11) as f64 + 1.0) / ((1u64 << 53) as f64 + 1.0);
                let gap = (u.ln() / (1.0 - q).ln()).floor() as u64 + 1;
                next = next.min(ord.saturating_add(gap));
            }
            Policy::Pct { .. } => {
                let tp = st.total_points;
                if let Some(&cp) = st.pct_points.iter().filter(|&&c| c > tp).min() {
                    next = next.min(ord + (cp - tp));
                }
            }
            _ => {}
        }
        next.max(ord + 1)
    }

    fn at_point(&self, tid: usize, kind: PointKind, latency: u64, ordinal: u64) -> u64 {
        let mut st = self.st.lock().unwrap();
        debug_assert_eq!(st.running, Some(tid));
        // account for the hook points passed on the fast path since the last consultation
        let skipped = ordinal - st.threads[tid].ordinal - 1;
        st.total_points += 1 + skipped;
        st.points_by_kind[kind_idx(PointKind::Hook)] += skipped;
        st.points_by_kind[kind_idx(kind)] += 1;
        st.threads[tid].ordinal = ordinal;
        let now = st.now;
        st.threads[tid].ready_at = now + latency;
        let next = Self::choose(&mut st, Some(tid), kind).unwrap_or(tid);
        let ra = st.threads[next].ready_at;
        if ra > st.now {
            st.now = ra; // nothing else to do: the clock jumps to the next event
        }
        if next == tid {
            return Self::next_consult(&mut st, tid);
        }
        let ordinal = st.threads[tid].ordinal;
        st.log.push(Switch { from: tid, ordinal, to: next, kind: KIND_NAMES[kind_idx(kind)] });
        st.running = Some(next);
        self.cvs[next].notify_one();
        while st.running != Some(tid) {
            st = self.cvs[tid].wait(st).unwrap();
        }
        Self::next_consult(&mut st, tid)
    }

    /// Called by a simulated thread before its first instruction.
    pub fn enter(self: &Arc<Self>, tid: usize) {
        CUR.with(|c| *c.borrow_mut() = Some((self.clone(), tid)));
        let mut st = self.st.lock().unwrap();
        let first = Self::next_consult(&mut st, tid);
        PT.with(|p| p.set((0, first)));
        st.threads[tid].started = true;
        self.ctl.notify_all();
        while st.running != Some(tid) {
            st = self.cvs[tid].wait(st).unwrap();
        }
    }

    /// Controller: block until thread `tid` has parked in `enter`.
    pub fn wait_started(self: &Arc<Self>, tid: usize) {
        let mut st = self.st.lock().unwrap();
        while !st.threads[tid].started {
            st = self.ctl.wait(st).unwrap();
        }
    }

    /// Called by a simulated thread after its last instruction.
    pub fn leave(self: &Arc<Self>, tid: usize) {
        {
            let mut st = self.st.lock().unwrap();
            let ordinal = PT.with(|p| p.get()).0 + 1;
            let skipped = ordinal - st.threads[tid].ordinal - 1;
            st.total_points += 1 + skipped;
            st.points_by_kind[kind_idx(PointKind::Hook)] += skipped;
            st.points_by_kind[kind_idx(PointKind::ThreadEnd)] += 1;
            st.threads[tid].ordinal = ordinal;
            st.threads[tid].done = true;
            match Self::choose(&mut st, Some(tid), PointKind::ThreadEnd) {
                Some(next) => {
                    let ordinal = st.threads[tid].ordinal;
                    st.log.push(Switch { from: tid, ordinal, to: next, kind: "thread_end" });
                    let ra = st.threads[next].ready_at;
                    if ra > st.now {
                        st.now = ra;
                    }
                    st.running = Some(next);
                    self.cvs[next].notify_one();
                }
                None => {
                    st.running = None;
                    st.all_done = true;
                    self.ctl.notify_all();
                }
            }
        }
        CUR.with(|c| *c.borrow_mut() = None);
        PT.with(|p| p.set((0, 0)));
    }

    /// Controller: hand the token to the first thread and wait until all are done.
    pub fn run_to_completion(self: &Arc<Self>) -> SchedStats {
        let mut st = self.st.lock().unwrap();
        if !st.all_done {
            let first = Self::choose(&mut st, None, PointKind::JobStart).unwrap();
            st.log.push(Switch { from: usize::MAX, ordinal: 0, to: first, kind: "start" });
            st.running = Some(first);
            self.cvs[first].notify_one();
            while !st.all_done {
                st = self.ctl.wait(st).unwrap();
            }
        }
        SchedStats { switches: st.log.clone(), total_points: st.total_points, points_by_kind: st.points_by_kind, sim_time: st.now }
    }
}
