//! Deterministic heap for forked run processes (seam S8).
//!
//! `grass` hashes the *address* of an `Rc` in one place
//! (`selector/extend/extended_selector.rs`), so the iteration order of a
//! `SelectorHashSet` depends on allocator state. In a run process (forked from
//! the worker for exactly one simulated run) the global allocator switches from
//! the system allocator to per-thread bump regions at fixed addresses: the
//! addresses a simulated thread sees are then a pure function of its own
//! allocation sequence and of the seeded `heap_shift` fault — never of what the
//! worker did before, of other threads, or of ASLR.

use std::alloc::{GlobalAlloc, Layout, System};
use std::cell::Cell;
use std::sync::atomic::{AtomicBool, AtomicUsize, Ordering};

pub struct DetAlloc;

const BASE: usize = 0x5000_0000_0000;
const REGION: usize = 1 << 33; // 8 GiB of address space per region, never reserved
const NREGIONS: usize = 24;
/// no simulated thread may use more than this much of its region
const CAP: usize = 1 << 30;

static ON: AtomicBool = AtomicBool::new(false);
#[allow(clippy::declare_interior_mutable_const)]
const Z: AtomicUsize = AtomicUsize::new(0);
static OFFS: [AtomicUsize; NREGIONS] = [Z; NREGIONS];

/// Size classes 16 B .. 64 KiB (powers of two). Freed blocks are recycled only
/// by the thread that owns the region (a foreign free leaks the block), so the
/// addresses a thread sees stay a function of its own allocation history.
const NCLASSES: usize = 13;
#[allow(clippy::declare_interior_mutable_const)]
const ZC: [AtomicUsize; NCLASSES] = [Z; NCLASSES];
static FREE: [[AtomicUsize; NCLASSES]; NREGIONS] = [ZC; NREGIONS];

#[inline]
fn class_of(size: usize) -> Option<usize> {
    let s = size.max(16).next_power_of_two();
    let c = s.trailing_zeros() as usize - 4;
    if c < NCLASSES {
        Some(c)
    } else {
        None
    }
}

thread_local! {
    /// 0 = not assigned (spill-over region shared by runtime-internal allocations)
    static MY_REGION: Cell<usize> = const { Cell::new(0) };
}

/// Map the regions and switch this process to the deterministic heap. Only in a
/// forked run process. Returns false if the address range is not available.
pub fn enable() -> bool {
    unsafe {
        let p = libc::mmap(
            BASE as *mut libc::c_void,
            REGION * NREGIONS,
            libc::PROT_READ | libc::PROT_WRITE,
            libc::MAP_PRIVATE | libc::MAP_ANONYMOUS | libc::MAP_NORESERVE | libc::MAP_FIXED_NOREPLACE,
            -1,
            0,
        );
        if p as usize != BASE {
            return false;
        }
    }
    ON.store(true, Ordering::SeqCst);
    true
}

pub fn is_on() -> bool {
    ON.load(Ordering::Relaxed)
}

/// Give the calling thread its own region (1..NREGIONS-1) starting `shift`
/// 16-byte units in.
pub fn set_region(r: usize, shift: usize) {
    let r = r.min(NREGIONS - 1);
    MY_REGION.with(|c| c.set(r));
    if r > 0 && OFFS[r].load(Ordering::Relaxed) == 0 {
        OFFS[r].store(shift * 16, Ordering::Relaxed);
    }
}

#[inline]
fn in_det(p: *mut u8) -> bool {
    let a = p as usize;
    a >= BASE && a < BASE + REGION * NREGIONS
}

unsafe impl GlobalAlloc for DetAlloc {
    unsafe fn alloc(&self, l: Layout) -> *mut u8 {
        if !ON.load(Ordering::Relaxed) {
            return System.alloc(l);
        }
        let r = MY_REGION.try_with(Cell::get).unwrap_or(0);
        let cls = if r != 0 && l.align() <= 16 { class_of(l.size()) } else { None };
        if let Some(c) = cls {
            let head = FREE[r][c].load(Ordering::Relaxed);
            if head != 0 {
                let next = *(head as *const usize);
                FREE[r][c].store(next, Ordering::Relaxed);
                return head as *mut u8;
            }
        }
        let l = match cls {
            Some(c) => Layout::from_size_align_unchecked(16usize << c, 16),
            None => l,
        };
        let align = l.align().max(16);
        // fetch_update keeps the spill-over region safe for concurrent use
        let mut start = 0;
        let _ = OFFS[r].fetch_update(Ordering::Relaxed, Ordering::Relaxed, |off| {
            start = (off + align - 1) & !(align - 1);
            Some(start + l.size().max(1))
        });
        if start + l.size() > CAP {
            return std::ptr::null_mut(); // runaway allocation: abort the run process
        }
        (BASE + r * REGION + start) as *mut u8
    }

    unsafe fn dealloc(&self, p: *mut u8, l: Layout) {
        if in_det(p) {
            let rp = (p as usize - BASE) / REGION;
            let r = MY_REGION.try_with(Cell::get).unwrap_or(0);
            if rp != 0 && rp == r && l.align() <= 16 {
                if let Some(c) = class_of(l.size()) {
                    *(p as *mut usize) = FREE[r][c].load(Ordering::Relaxed);
                    FREE[r][c].store(p as usize, Ordering::Relaxed);
                }
            }
            return; // everything else leaks: a run lives for milliseconds
        }
        System.dealloc(p, l)
    }

    unsafe fn realloc(&self, p: *mut u8, l: Layout, new_size: usize) -> *mut u8 {
        if !in_det(p) && !ON.load(Ordering::Relaxed) {
            return System.realloc(p, l, new_size);
        }
        if in_det(p) && l.align() <= 16 {
            // still fits its size class: grow or shrink in place
            if let (Some(a), Some(b)) = (class_of(l.size()), class_of(new_size)) {
                let rp = (p as usize - BASE) / REGION;
                if a == b && rp != 0 {
                    return p;
                }
            }
        }
        let nl = Layout::from_size_align_unchecked(new_size, l.align());
        let np = self.alloc(nl);
        if !np.is_null() {
            std::ptr::copy_nonoverlapping(p, np, l.size().min(new_size));
            self.dealloc(p, l);
        }
        np
    }
}
