//! C19: diagnostics located, renderable and routed only through the Logger.
//!
//! Workload: "logger scripts" — programs whose @debug/@warn/@error deliveries
//! are known *by construction*: the generator builds a small tree over a closed
//! grammar, prints it (recording the line of every directive) and executes its
//! own tree to obtain the exact expected delivery list. Nothing here interprets
//! Sass; it is generated operations with a known history.

use std::collections::{BTreeMap, BTreeSet};

use serde_json::{json, Value};

use crate::case::{CanonMode, ContentFault, Entry, Fault, IoKind, JobSpec};
use crate::engine::{Ctx, Engine, Progress, UnitResult, Violation};
use crate::job::{run_job, JobResult, LogEvent, Outcome};
use crate::prng::{hash_bytes, mix, mix_str, Rng};
use crate::simfs::{normalize, FsOp};

pub struct LoggerEngine;

// ---------------------------------------------------------------- script AST

#[derive(Clone, Debug)]
enum Cond {
    Lit(bool),
    VarEq(String, i64),
}

#[derive(Clone, Debug)]
enum Node {
    Debug { tag: u32, vars: Vec<String> },
    Warn { tag: u32, vars: Vec<String> },
    Error { tag: u32, vars: Vec<String> },
    /// `bound_func`: the upper bound is written as a call `fN(hi)` of a function of this file
    /// (its directives are delivered once, before the first iteration)
    For { var: String, lo: i64, hi: i64, inclusive: bool, body: Vec<Node>, bound_func: Option<usize> },
    /// `as_map`: iterate a map `(10: x, 13: x)` with two variables; the first one carries the key
    Each { var: String, items: Vec<i64>, body: Vec<Node>, as_map: bool },
    /// `cond_func`: the condition is written `fN($w) < n` (fN returns its argument; its directives
    /// are delivered at every evaluation of the condition: n + 1 times for a loop that runs out)
    While { var: String, n: i64, body: Vec<Node>, cond_func: Option<usize> },
    /// inside a function, inside a loop over `var`: `@if $var == k { @return $a; }`
    ReturnIf { var: String, k: i64 },
    /// expressions whose operand may or may not be evaluated: if(), and, or, !default
    Lazy { kind: u8, tag: u32, f1: usize, f2: usize, arg: i64 },
    If { cond: Cond, then: Vec<Node>, els: Vec<Node> },
    Rule { sel: String, body: Vec<Node> },
    Include { mixin: usize, arg: i64, content: Option<Vec<Node>> },
    Call { func: usize, arg: i64 },
    Import { file: usize },
    Decl,
    /// multi-line material that produces no delivery (comment, map, interpolated rule)
    Filler { kind: u8 },
    /// `@debug fN(arg)`: the function's own deliveries come first, then the inspected result
    DebugOfCall { tag: u32, func: usize, arg: i64 },
    /// `@debug` whose value is a map written over several lines: located at the directive's first line
    DebugMulti { tag: u32, vars: Vec<String> },
    /// a style rule whose interpolated selector does not parse: ends the compilation with an
    /// error whose text is not part of the expectation (only its file and its validity are)
    BadSelector { tag: u32 },
    /// one SCSS line whose evaluation fails with an error of the implementation's own wording,
    /// in which two files take part (e.g. a suffixed `&` from a mixin of an imported file under
    /// a rule of this file): the error may name either file, but must be valid for the one it names
    RawError { tag: u32, text: String },
    /// include of a mixin that is defined in an imported file (entry only, after the import)
    IncludeForeign { file: usize, mixin: usize, arg: i64, content: Option<Vec<Node>> },
    /// call of a function that a `@use`d file defines (entry only): through its namespace
    /// (form 0) or as a first-class function, `meta.call(meta.get-function(..., $module: ...), ...)`
    CallForeign { file: usize, func: usize, arg: i64, form: u8 },
}

#[derive(Clone, Debug)]
struct Callable {
    name: String,
    body: Vec<Node>,
    /// index in `body` after which `@content` is placed (mixins only)
    content_at: Option<usize>,
    /// a second parameter `$o: <that function of the same file>($a)`: its default expression
    /// is evaluated (and the function's directives executed) exactly when the caller does
    /// not pass `$o`, before the body runs
    default_func: Option<usize>,
}

/// How a call site passes the optional parameter of a callable that has one: derived from the
/// first argument so that the AST needs no extra field. 0 = not passed, 1 = by keyword, 2 = by position.
fn opt_form(arg: i64) -> i64 {
    arg.rem_euclid(3)
}

fn call_args(c: &Callable, arg: i64) -> String {
    match (c.default_func, opt_form(arg)) {
        (Some(_), 1) => format!("{}, $o: 0", arg),
        (Some(_), 2) => format!("{}, 0", arg),
        _ => arg.to_string(),
    }
}

#[derive(Clone, Debug)]
struct FileAst {
    path: String,
    sass: bool,
    /// raw SCSS appended after the body (definitions only, no deliveries)
    tail: String,
    /// files loaded with @use at the top (each module is used from exactly one place)
    uses: Vec<usize>,
    mixins: Vec<Callable>,
    funcs: Vec<Callable>,
    body: Vec<Node>,
}

/// number of ways the value of a generated `@error` is written (see the printer)
const ERROR_FORMS: u32 = 15;
/// expected message of an `@error` whose text is not written down but has to equal what
/// `@debug inspect(<same expression>)` on the line before delivered
const SAME_AS_INSPECT: &str = "=inspect-of-the-line-before";

#[derive(Clone, Debug, PartialEq)]
pub struct Expected {
    pub kind: String,
    pub file: String,
    pub line: usize,
    pub msg: String,
}

struct Gen<'a> {
    rng: &'a mut Rng,
    next_tag: u32,
    budget: i32,
    /// distinguishes the loop variables of content blocks from those of the
    /// including scope (a content block runs in the caller's scope)
    salt: &'static str,
}

#[derive(Clone, Copy, PartialEq)]
enum Where {
    Top,
    Rule,
    Control,
    Mixin,
    Function,
    Content,
}

impl<'a> Gen<'a> {
    fn tag(&mut self) -> u32 {
        self.next_tag += 1;
        self.next_tag
    }

    /// Every loop variable of a script has its own name: the expected messages
    /// must not depend on how shadowing between a callable's locals and its
    /// caller's variables is resolved (that is scoping semantics, not C19).
    fn fresh_var(&mut self, prefix: &str) -> String {
        self.next_tag += 1;
        format!("{}{}{}", prefix, self.salt, self.next_tag)
    }

    fn block(&mut self, wh: Where, depth: usize, vars: &[String], nmix: usize, nfun: usize, nimp: &[usize], in_rule: bool) -> Vec<Node> {
        let n = self.rng.range(1, 4);
        let mut out = vec![];
        for _ in 0..n {
            if self.budget <= 0 {
                break;
            }
            self.budget -= 1;
            let r = self.rng.below(100);
            let node = if r < 4 {
                Node::DebugMulti { tag: self.tag(), vars: vars.to_vec() }
            } else if r < 22 {
                Node::Debug { tag: self.tag(), vars: vars.to_vec() }
            } else if r < 42 {
                Node::Warn { tag: self.tag(), vars: vars.to_vec() }
            } else if r < 52 && depth < 3 {
                let var = self.fresh_var("i");
                let lo = self.rng.range(0, 2) as i64;
                let hi = lo + self.rng.range(0, 3) as i64;
                let mut v2 = vars.to_vec();
                if v2.len() < 3 {
                    v2.push(var.clone());
                }
                let body = self.block(if wh == Where::Function { Where::Function } else { Where::Control }, depth + 1, &v2, nmix, nfun, &[], in_rule);
                let bound_func = if nfun > 0 && wh != Where::Function && wh != Where::Mixin && wh != Where::Content && self.rng.chance(0.25) { Some(self.rng.usize_below(nfun)) } else { None };
                Node::For { var, lo, hi, inclusive: self.rng.chance(0.5), body, bound_func }
            } else if r < 60 && depth < 3 {
                let var = self.fresh_var("i");
                let k = self.rng.range(1, 3);
                let items: Vec<i64> = (0..k).map(|j| 10 + j as i64 * 3).collect();
                let mut v2 = vars.to_vec();
                if v2.len() < 3 {
                    v2.push(var.clone());
                }
                let body = self.block(if wh == Where::Function { Where::Function } else { Where::Control }, depth + 1, &v2, nmix, nfun, &[], in_rule);
                Node::Each { var, items, body, as_map: self.rng.chance(0.3) }
            } else if r < 65 && depth < 3 {
                let var = self.fresh_var("w");
                let mut v2 = vars.to_vec();
                if v2.len() < 3 {
                    v2.push(var.clone());
                }
                let body = self.block(if wh == Where::Function { Where::Function } else { Where::Control }, depth + 1, &v2, nmix, nfun, &[], in_rule);
                let cond_func = if nfun > 0 && wh != Where::Mixin && wh != Where::Content && self.rng.chance(0.3) { Some(self.rng.usize_below(nfun)) } else { None };
                Node::While { var, n: self.rng.range(1, 3) as i64, body, cond_func }
            } else if r < 73 && depth < 3 {
                let cond = if !vars.is_empty() && self.rng.chance(0.6) { Cond::VarEq(vars[self.rng.usize_below(vars.len())].clone(), self.rng.range(0, 2) as i64) } else { Cond::Lit(self.rng.chance(0.5)) };
                let sub = if wh == Where::Function { Where::Function } else { Where::Control };
                let then = self.block(sub, depth + 1, vars, nmix, nfun, &[], in_rule);
                let els = if self.rng.chance(0.6) { self.block(sub, depth + 1, vars, nmix, nfun, &[], in_rule) } else { vec![] };
                Node::If { cond, then, els }
            } else if r < 80 && wh != Where::Function && !in_rule && depth < 2 {
                let sel = format!(".r{}", self.tag());
                let body = self.block(Where::Rule, depth + 1, vars, nmix, nfun, if wh == Where::Top { nimp } else { &[] }, true);
                Node::Rule { sel, body }
            } else if r < 88 && nmix > 0 && wh != Where::Function && wh != Where::Mixin {
                let mixin = self.rng.usize_below(nmix);
                Node::Include { mixin, arg: self.rng.range(1, 9) as i64, content: None }
            } else if r < 94 && nfun > 0 && wh != Where::Function && wh != Where::Mixin {
                Node::Call { func: self.rng.usize_below(nfun), arg: self.rng.range(1, 9) as i64 }
            } else if r < 98 && !nimp.is_empty() && (wh == Where::Top || wh == Where::Rule) {
                Node::Import { file: *self.rng.pick(nimp) }
            } else if in_rule {
                Node::Decl
            } else if self.rng.chance(0.5) && wh != Where::Function && wh != Where::Mixin && wh != Where::Content {
                Node::Filler { kind: self.rng.below(3) as u8 }
            } else {
                Node::Debug { tag: self.tag(), vars: vars.to_vec() }
            };
            // some messages mention the parent selector: alone (`@warn w7 &`, no variable and no
            // interpolation, yet a different message under every rule) or interpolated with the rest
            let node = match node {
                Node::Warn { tag, vars } if self.rng.chance(0.2) => {
                    if self.rng.chance(0.5) {
                        Node::Warn { tag, vars: vec!["&".to_string()] }
                    } else {
                        let mut v = vars;
                        v.push("&".to_string());
                        Node::Warn { tag, vars: v }
                    }
                }
                // (@debug inspects its value, and what inspect makes of a bare `&` is not C19's subject)
                Node::Debug { tag, vars } if !vars.is_empty() && self.rng.chance(0.2) => {
                    let mut v = vars;
                    v.push("&".to_string());
                    Node::Debug { tag, vars: v }
                }
                n => n,
            };
            let node = match node {
                Node::Call { func, arg } if self.rng.chance(0.4) => Node::DebugOfCall { tag: self.tag(), func, arg },
                Node::Call { func, arg } if self.rng.chance(0.4) => Node::Lazy { kind: self.rng.below(7) as u8, tag: self.tag(), f1: func, f2: self.rng.usize_below(nfun), arg },
                n => n,
            };
            // an early return from inside a loop of a function body
            let node = if wh == Where::Function && self.rng.chance(0.12) {
                match vars.iter().rev().find(|v| v.as_str() != "a") {
                    Some(v) => Node::ReturnIf { var: v.clone(), k: self.rng.range(0, 2) as i64 },
                    None => node,
                }
            } else {
                node
            };
            out.push(node);
        }
        out
    }
}

struct Printer {
    out: String,
    line: usize,
    sass: bool,
    /// put dense non-ASCII text in front of directives on the same line (SCSS
    /// only): columns and byte offsets then differ, which is what error
    /// rendering and location bookkeeping must cope with
    cjk: bool,
    /// tag -> line
    lines: BTreeMap<u32, usize>,
    /// non-zero: lines made of nothing but spaces or tabs (what an editor leaves behind on a
    /// "blank" line) are put between statements; they count as lines and mean nothing else
    ws: u64,
}

impl Printer {
    fn maybe_blank(&mut self) {
        if self.ws == 0 || self.line == 0 {
            return;
        }
        let h = crate::prng::mix(self.ws, self.line as u64);
        if h % 4 != 0 {
            return;
        }
        let k = [1usize, 2, 2, 2, 3, 4, 4, 6, 8][((h >> 8) % 9) as usize];
        let c = if (h >> 16) % 6 == 0 { "\t" } else { " " };
        let k = if c == "\t" { 1 + k % 2 } else { k };
        for _ in 0..k {
            self.out.push_str(c);
        }
        self.out.push('\n');
        self.line += 1;
    }
    fn ln(&mut self, indent: usize, s: &str) {
        for _ in 0..indent {
            self.out.push_str("  ");
        }
        self.out.push_str(s);
        self.out.push('\n');
        self.line += 1;
    }
    fn open(&mut self, indent: usize, head: &str) {
        if self.sass {
            self.ln(indent, head);
        } else {
            self.ln(indent, &format!("{} {{", head));
        }
    }
    fn close(&mut self, indent: usize) {
        if !self.sass {
            self.ln(indent, "}");
        }
    }
    fn stmt(&mut self, indent: usize, s: &str) {
        if self.sass {
            self.ln(indent, s);
        } else {
            self.ln(indent, &format!("{};", s));
        }
    }
    fn msg(prefix: &str, tag: u32, vars: &[String]) -> String {
        // the pseudo variable "&" stands for the parent selector: alone, it is written without
        // interpolation (`@warn w7 &`: a message that differs from one execution to the next
        // although the expression has no variable in it); next to others it is interpolated
        if vars.len() == 1 && vars[0] == "&" {
            return format!("{}{} &", prefix, tag);
        }
        let mut m = format!("{}{}", prefix, tag);
        for v in vars {
            if v == "&" {
                m.push_str("-#{&}");
            } else {
                m.push_str(&format!("-#{{${}}}", v));
            }
        }
        m
    }
    fn block(&mut self, indent: usize, nodes: &[Node], f: &FileAst, all: &[FileAst]) {
        if nodes.is_empty() && self.sass {
            // an empty indented block is not expressible; emit a harmless comment
            self.ln(indent, "// empty");
        }
        let mut skip_next = false;
        for (ni, n) in nodes.iter().enumerate() {
            if skip_next {
                skip_next = false;
                continue;
            }
            self.maybe_blank();
            // two @warn directives on one line (SCSS): their spans share a line, nothing else
            if let (Node::Warn { tag: t1, vars: v1 }, Some(Node::Warn { tag: t2, vars: v2 })) = (n, nodes.get(ni + 1)) {
                if !self.sass && t1 % 4 == 0 {
                    self.lines.insert(*t1, self.line + 1);
                    self.lines.insert(*t2, self.line + 1);
                    self.ln(indent, &format!("@warn {}; @warn {};", Self::msg("w", *t1, v1), Self::msg("w", *t2, v2)));
                    skip_next = true;
                    continue;
                }
            }
            match n {
                Node::Debug { tag, vars } => {
                    self.lines.insert(*tag, self.line + 1);
                    let pre = if self.cjk && !self.sass && tag % 3 == 0 { "/* 説明テキスト */ " } else { "" };
                    self.stmt(indent, &format!("{}@debug {}", pre, Self::msg("d", *tag, vars)));
                }
                Node::Warn { tag, vars } => {
                    self.lines.insert(*tag, self.line + 1);
                    self.stmt(indent, &format!("@warn {}", Self::msg("w", *tag, vars)));
                }
                Node::Error { tag, vars } => {
                    let pre = if self.cjk && !self.sass { "$_cjk: \"日本語テキストの説明です、とても長い\"; " } else { "" };
                    let m = Self::msg("e", *tag, vars);
                    // the value of @error is reported *inspected*: strings keep their quotes, also inside lists and maps
                    let value = match tag % ERROR_FORMS {
                        0 => format!("\"{}\"", m),
                        1 => format!("\"{}\", \"b c\"", m),
                        2 => format!("(k: \"{}\")", m),
                        3 => format!("(\"{}\", 12px, null, [a, b])", m),
                        4 => format!("\"{} {{}} {{0}} %s\"", m),
                        // from here on the expectation is not written down: the line before the
                        // @error prints inspect() of the same expression through @debug, and the
                        // error has to carry exactly that text
                        5 => format!("(\"{}\",)", m),
                        6 => format!("[(\"{}\" 1.50px), (a: null)]", m),
                        7 => format!("2px * 3 1.23456789012 \"{}\" -0.0 1e3 0.000001", m),
                        8 => format!("(k1: (\"{}\", [x y]), \"k 2\": (n: null, t: true, e: ()))", m),
                        9 => format!("#ff0000 red rgba(0, 0, 0, 0.5) \"{}\" transparent", m),
                        10 => format!("calc(1px + 2%) \"{}\" () (1 2, 3 4) [[]]", m),
                        11 => format!("join((), \"{}\", comma) unquote(\"a b\") \"#{{1 + 1}}x\" 10px10 -x", m),
                        // strings that need escaping when they are inspected
                        12 => format!("\"{} a\\\\b c\\\\\"", m),
                        13 => format!("\"{}\\a z\\9 y\\1f\"", m),
                        _ => format!("'{} \"dq\" \\27 s #{{\"\\\\\"}}'", m),
                    };
                    if tag % ERROR_FORMS >= 5 {
                        self.stmt(indent, &format!("@debug inspect({})", value));
                    }
                    self.lines.insert(*tag, self.line + 1);
                    self.stmt(indent, &format!("{}@error {}", pre, value));
                }
                Node::For { var, lo, hi, inclusive, body, bound_func } => {
                    let hi_txt = match bound_func {
                        Some(fi) => format!("{}({})", f.funcs[*fi].name, hi),
                        None => hi.to_string(),
                    };
                    self.open(indent, &format!("@for ${} from {} {} {}", var, lo, if *inclusive { "through" } else { "to" }, hi_txt));
                    self.block(indent + 1, body, f, all);
                    self.close(indent);
                }
                Node::Each { var, items, body, as_map } => {
                    let list: Vec<String> = items.iter().map(|i| if *as_map { format!("{}: x", i) } else { i.to_string() }).collect();
                    if *as_map {
                        self.open(indent, &format!("@each ${}, $_v in ({})", var, list.join(", ")));
                    } else {
                        self.open(indent, &format!("@each ${} in {}", var, list.join(", ")));
                    }
                    self.block(indent + 1, body, f, all);
                    self.close(indent);
                }
                Node::ReturnIf { var, k } => {
                    self.open(indent, &format!("@if ${} == {}", var, k));
                    self.stmt(indent + 1, "@return $a");
                    self.close(indent);
                }
                Node::Lazy { kind, tag, f1, f2, arg } => {
                    let (a, b) = (format!("{}({})", f.funcs[*f1].name, arg), format!("{}({})", f.funcs[*f2].name, arg + 1));
                    match kind {
                        0 => self.stmt(indent, &format!("$_l: if(true, {}, {})", a, b)),
                        1 => self.stmt(indent, &format!("$_l: if(false, {}, {})", a, b)),
                        2 => self.stmt(indent, &format!("$_l: false and {}", a)),
                        3 => self.stmt(indent, &format!("$_l: true and {}", a)),
                        4 => self.stmt(indent, &format!("$_l: true or {}", a)),
                        5 => self.stmt(indent, &format!("$_l: false or {}", a)),
                        6 => {
                            self.stmt(indent, &format!("$_d{}: 1", tag));
                            self.stmt(indent, &format!("$_d{}: {} !default", tag, a));
                        }
                        _ => self.stmt(indent, &format!("$_e{}: {} !default", tag, a)),
                    }
                }
                Node::While { var, n, body, cond_func } => {
                    self.stmt(indent, &format!("${}: 0", var));
                    match cond_func {
                        Some(cf) => self.open(indent, &format!("@while {}(${}) < {}", f.funcs[*cf].name, var, n)),
                        None => self.open(indent, &format!("@while ${} < {}", var, n)),
                    }
                    self.block(indent + 1, body, f, all);
                    self.stmt(indent + 1, &format!("${}: ${} + 1", var, var));
                    self.close(indent);
                }
                Node::If { cond, then, els } => {
                    let c = match cond {
                        Cond::Lit(b) => b.to_string(),
                        Cond::VarEq(v, k) => format!("${} == {}", v, k),
                    };
                    self.open(indent, &format!("@if {}", c));
                    self.block(indent + 1, then, f, all);
                    if els.is_empty() {
                        self.close(indent);
                    } else if self.sass {
                        self.ln(indent, "@else");
                        self.block(indent + 1, els, f, all);
                    } else {
                        self.ln(indent, "} @else {");
                        self.block(indent + 1, els, f, all);
                        self.ln(indent, "}");
                    }
                }
                Node::Rule { sel, body } => {
                    self.open(indent, sel);
                    self.block(indent + 1, body, f, all);
                    self.close(indent);
                }
                Node::Include { mixin, arg, content } => match content {
                    None => self.stmt(indent, &format!("@include {}({})", f.mixins[*mixin].name, call_args(&f.mixins[*mixin], *arg))),
                    Some(c) => {
                        self.open(indent, &format!("@include {}({})", f.mixins[*mixin].name, call_args(&f.mixins[*mixin], *arg)));
                        self.block(indent + 1, c, f, all);
                        self.close(indent);
                    }
                },
                Node::Call { func, arg } => self.stmt(indent, &format!("$_r: {}({})", f.funcs[*func].name, call_args(&f.funcs[*func], *arg))),
                Node::Import { file } => {
                    let url = all[*file].path.rsplit('/').next().unwrap().trim_start_matches('_').rsplit_once('.').unwrap().0.to_string();
                    self.stmt(indent, &format!("@import \"{}\"", url));
                }
                Node::Decl => self.stmt(indent, "x: y"),
                Node::Filler { kind } => {
                    if self.sass {
                        self.ln(indent, "// filler");
                    } else {
                        match kind {
                            0 => {
                                self.ln(indent, "/* a comment that");
                                self.ln(indent, "   spans three");
                                self.ln(indent, "   lines */");
                            }
                            1 => {
                                self.ln(indent, "$_map: (");
                                self.ln(indent, "  a: 1,");
                                self.ln(indent, "  b: (c, d),");
                                self.ln(indent, ");");
                            }
                            _ => {
                                self.ln(indent, ".f-#{1 + 1},");
                                self.ln(indent, ".g-#{2 + 2} {");
                                self.ln(indent, "  x: y;");
                                self.ln(indent, "}");
                            }
                        }
                    }
                }
                Node::DebugOfCall { tag, func, arg } => {
                    self.lines.insert(*tag, self.line + 1);
                    if tag % 2 == 0 {
                        self.stmt(indent, &format!("@debug {}({})", f.funcs[*func].name, arg));
                    } else {
                        // the call sits in an interpolation of the message: evaluated exactly once
                        self.stmt(indent, &format!("@debug q{}-#{{{}({})}}", tag, f.funcs[*func].name, arg));
                    }
                }
                Node::DebugMulti { tag, vars } => {
                    self.lines.insert(*tag, self.line + 1);
                    if self.sass {
                        self.stmt(indent, &format!("@debug (a: {}, b: 2)", Self::msg("d", *tag, vars)));
                    } else {
                        match tag % 3 {
                            0 => {
                                self.ln(indent, "@debug (");
                                self.ln(indent, &format!("  a: {},", Self::msg("d", *tag, vars)));
                                self.ln(indent, "  b: 2");
                                self.ln(indent, ");");
                            }
                            1 => {
                                // a space-separated list broken across lines
                                self.ln(indent, &format!("@debug {}", Self::msg("d", *tag, vars)));
                                self.ln(indent, "  second");
                                self.ln(indent, "  third;");
                            }
                            _ => {
                                self.ln(indent, &format!("@debug [{}", Self::msg("d", *tag, vars)));
                                self.ln(indent, "  second];");
                            }
                        }
                    }
                }
                Node::RawError { tag, text } => {
                    self.lines.insert(*tag, self.line + 1);
                    self.ln(indent, text);
                }
                Node::BadSelector { tag } => {
                    // the text that fails to parse comes out of interpolation and is lexed again
                    // against the span of the source; in three of four forms the resolved text is
                    // non-ASCII and has more bytes (but not more characters) than that span, or
                    // sits in a query rather than a selector
                    let head = match tag % 4 {
                        0 => ".bad-#{\"[[\"}".to_string(),
                        1 => ".b#{$_n}%".to_string(),
                        2 => ".b#{$_n}, .c#{$_n} >> [".to_string(),
                        _ => "@media #{$_n} and #{$_n}".to_string(),
                    };
                    if tag % 4 != 0 {
                        self.stmt(indent, "$_n: \"éééééé\"");
                    }
                    self.lines.insert(*tag, self.line + 1);
                    let media = tag % 4 == 3;
                    if self.sass {
                        self.ln(indent, &head);
                        if media {
                            self.ln(indent + 1, ".m");
                            self.ln(indent + 2, "x: y");
                        } else {
                            self.ln(indent + 1, "x: y");
                        }
                    } else if media {
                        self.ln(indent, &format!("{} {{ .m {{ x: y; }} }}", head));
                    } else {
                        self.ln(indent, &format!("{} {{ x: y; }}", head));
                    }
                }
                Node::IncludeForeign { file, mixin, arg, content } => {
                    // a member of a `@use`d file is reached through its namespace, one of an imported file is global
                    let ns = if f.uses.contains(file) { format!("u{}.", file) } else { String::new() };
                    match content {
                        None => self.stmt(indent, &format!("@include {}{}({})", ns, all[*file].mixins[*mixin].name, call_args(&all[*file].mixins[*mixin], *arg))),
                        Some(c) => {
                            // the block is written (and located) in this file, the mixin lives in another
                            self.open(indent, &format!("@include {}{}({})", ns, all[*file].mixins[*mixin].name, call_args(&all[*file].mixins[*mixin], *arg)));
                            self.block(indent + 1, c, f, all);
                            self.close(indent);
                        }
                    }
                }
                Node::CallForeign { file, func, arg, form } => {
                    let c = &all[*file].funcs[*func];
                    if *form == 0 {
                        self.stmt(indent, &format!("$_r: u{}.{}({})", file, c.name, call_args(c, *arg)));
                    } else {
                        self.stmt(indent, &format!("$_r: meta.call(meta.get-function(\"{}\", $module: \"u{}\"), {})", c.name, file, call_args(c, *arg)));
                    }
                }
            }
        }
    }
    fn file(&mut self, f: &FileAst, all: &[FileAst]) {
        if f.body.iter().any(|n| matches!(n, Node::CallForeign { form, .. } if *form != 0)) {
            self.stmt(0, "@use \"sass:meta\"");
        }
        for u in &f.uses {
            let url = all[*u].path.rsplit('/').next().unwrap().trim_start_matches('_').rsplit_once('.').unwrap().0.to_string();
            self.stmt(0, &format!("@use \"{}\" as u{}", url, u));
        }
        for m in &f.mixins {
            match m.default_func {
                Some(d) => self.open(0, &format!("@mixin {}($a, $o: {}($a))", m.name, f.funcs[d].name)),
                None => self.open(0, &format!("@mixin {}($a)", m.name)),
            }
            match m.content_at {
                None => self.block(1, &m.body, f, all),
                Some(at) => {
                    let at = at.min(m.body.len());
                    self.block(1, &m.body[..at], f, all);
                    self.stmt(1, "@content");
                    if at < m.body.len() {
                        self.block(1, &m.body[at..], f, all);
                    }
                }
            }
            self.close(0);
        }
        for fun in &f.funcs {
            match fun.default_func {
                Some(d) => self.open(0, &format!("@function {}($a, $o: {}($a))", fun.name, f.funcs[d].name)),
                None => self.open(0, &format!("@function {}($a)", fun.name)),
            }
            self.block(1, &fun.body, f, all);
            self.stmt(1, "@return $a");
            self.close(0);
        }
        self.block(0, &f.body, f, all);
        for l in f.tail.lines() {
            self.ln(0, l);
        }
    }
}

struct Exec<'a> {
    files: &'a [FileAst],
    lines: &'a [BTreeMap<u32, usize>],
    out: Vec<Expected>,
    error: Option<Expected>,
    used: BTreeSet<usize>,
    /// set by an early `@return`; consumed at the call site of the function
    returned: bool,
    /// selectors of the style rules around the statement being executed (what `&` shows)
    sel: Vec<String>,
}

impl<'a> Exec<'a> {
    /// Execute the body of function `func` of file `fi` with `$a = arg`; false = an @error stopped everything.
    fn call_fn(&mut self, fi: usize, func: usize, arg: i64) -> bool {
        self.call_fn_opt(fi, func, arg, true)
    }

    /// `use_default`: the call site does not pass `$o`, so its default expression is evaluated first
    fn call_fn_opt(&mut self, fi: usize, func: usize, arg: i64, use_default: bool) -> bool {
        if use_default {
            if let Some(d) = self.files[fi].funcs[func].default_func {
                if !self.call_fn(fi, d, arg) {
                    return false;
                }
            }
        }
        let body = self.files[fi].funcs[func].body.clone();
        let mut fenv = BTreeMap::new();
        fenv.insert("a".to_string(), arg);
        if !self.run(fi, &body, &mut fenv, None) {
            if self.returned {
                self.returned = false;
                return true;
            }
            return false;
        }
        true
    }

    fn msg(prefix: &str, tag: u32, vars: &[String], env: &BTreeMap<String, i64>) -> String {
        let mut m = format!("{}{}", prefix, tag);
        for v in vars {
            m.push_str(&format!("-{}", env.get(v).copied().unwrap_or(-999)));
        }
        m
    }
    /// like `msg`, for directives whose text may mention the parent selector
    fn msg_sel(&self, prefix: &str, tag: u32, vars: &[String], env: &BTreeMap<String, i64>) -> String {
        let parent = self.sel.join(" ");
        if vars.len() == 1 && vars[0] == "&" {
            // a space-separated list whose second element is `&`: null (no parent) is left out
            return if parent.is_empty() { format!("{}{}", prefix, tag) } else { format!("{}{} {}", prefix, tag, parent) };
        }
        let mut m = format!("{}{}", prefix, tag);
        for v in vars {
            if v == "&" {
                m.push_str(&format!("-{}", parent));
            } else {
                m.push_str(&format!("-{}", env.get(v).copied().unwrap_or(-999)));
            }
        }
        m
    }
    /// returns false when an @error stopped execution
    fn run(&mut self, fi: usize, nodes: &[Node], env: &mut BTreeMap<String, i64>, content: Option<(&[Node], usize, BTreeMap<String, i64>)>) -> bool {
        for n in nodes {
            match n {
                Node::Debug { tag, vars } => self.out.push(Expected { kind: "debug".into(), file: self.files[fi].path.clone(), line: self.lines[fi][tag], msg: self.msg_sel("d", *tag, vars, env) }),
                Node::Warn { tag, vars } => self.out.push(Expected { kind: "warn".into(), file: self.files[fi].path.clone(), line: self.lines[fi][tag], msg: self.msg_sel("w", *tag, vars, env) }),
                Node::Error { tag, vars } => {
                    let m = Self::msg("e", *tag, vars, env);
                    let inspected = match tag % ERROR_FORMS {
                        0 => format!("\"{}\"", m),
                        1 => format!("\"{}\", \"b c\"", m),
                        2 => format!("(k: \"{}\")", m),
                        3 => format!("\"{}\", 12px, null, [a, b]", m),
                        4 => format!("\"{} {{}} {{0}} %s\"", m),
                        _ => {
                            // the @debug inspect(...) on the line before: any text, which the error then has to repeat
                            self.out.push(Expected { kind: "debug".into(), file: self.files[fi].path.clone(), line: self.lines[fi][tag] - 1, msg: "*".into() });
                            SAME_AS_INSPECT.to_string()
                        }
                    };
                    self.error = Some(Expected { kind: "error".into(), file: self.files[fi].path.clone(), line: self.lines[fi][tag], msg: inspected });
                    return false;
                }
                Node::For { var, lo, hi, inclusive, body, bound_func } => {
                    if let Some(bf) = bound_func {
                        if !self.call_fn(fi, *bf, *hi) {
                            return false;
                        }
                    }
                    // Sass @for counts down when from > to; the generator only emits lo <= hi
                    let end = if *inclusive { *hi } else { *hi - 1 };
                    let mut i = *lo;
                    while i <= end {
                        env.insert(var.clone(), i);
                        if !self.run(fi, body, env, content.clone()) {
                            return false;
                        }
                        i += 1;
                    }
                    env.remove(var);
                }
                Node::Each { var, items, body, .. } => {
                    for it in items {
                        env.insert(var.clone(), *it);
                        if !self.run(fi, body, env, content.clone()) {
                            return false;
                        }
                    }
                    env.remove(var);
                }
                Node::While { var, n, body, cond_func } => {
                    for i in 0..=*n {
                        env.insert(var.clone(), i);
                        // the condition is evaluated before every iteration and once more at the end
                        if let Some(cf) = cond_func {
                            if !self.call_fn(fi, *cf, i) {
                                return false;
                            }
                        }
                        if i == *n {
                            break;
                        }
                        if !self.run(fi, body, env, content.clone()) {
                            return false;
                        }
                    }
                    env.insert(var.clone(), *n);
                }
                Node::ReturnIf { var, k } => {
                    if env.get(var).copied() == Some(*k) {
                        self.returned = true;
                        return false;
                    }
                }
                Node::Lazy { kind, f1, f2, arg, .. } => {
                    let evaluated: Option<(usize, i64)> = match kind {
                        0 => Some((*f1, *arg)),
                        1 => Some((*f2, *arg + 1)),
                        2 | 4 | 6 => None,
                        _ => Some((*f1, *arg)),
                    };
                    if let Some((f, a)) = evaluated {
                        if !self.call_fn(fi, f, a) {
                            return false;
                        }
                    }
                }
                Node::If { cond, then, els } => {
                    let c = match cond {
                        Cond::Lit(b) => *b,
                        Cond::VarEq(v, k) => env.get(v).copied() == Some(*k),
                    };
                    if !self.run(fi, if c { then } else { els }, env, content.clone()) {
                        return false;
                    }
                }
                Node::Rule { sel, body } => {
                    self.sel.push(sel.clone());
                    let ok = self.run(fi, body, env, content.clone());
                    self.sel.pop();
                    if !ok {
                        return false;
                    }
                }
                Node::Include { mixin, arg, content: c } => {
                    if let Some(d) = self.files[fi].mixins[*mixin].default_func {
                        if opt_form(*arg) == 0 && !self.call_fn(fi, d, *arg) {
                            return false;
                        }
                    }
                    let m = &self.files[fi].mixins[*mixin];
                    let mut menv = BTreeMap::new();
                    menv.insert("a".to_string(), *arg);
                    let at = m.content_at.map(|a| a.min(m.body.len()));
                    match at {
                        None => {
                            if !self.run(fi, &m.body, &mut menv, None) {
                                return false;
                            }
                        }
                        Some(at) => {
                            if !self.run(fi, &m.body[..at], &mut menv, None) {
                                return false;
                            }
                            if let Some(cb) = c {
                                // the content block runs in the caller's scope
                                let mut cenv = env.clone();
                                if !self.run(fi, cb, &mut cenv, None) {
                                    return false;
                                }
                            }
                            if !self.run(fi, &m.body[at..], &mut menv, None) {
                                return false;
                            }
                        }
                    }
                }
                Node::Call { func, arg } => {
                    if !self.call_fn_opt(fi, *func, *arg, opt_form(*arg) == 0) {
                        return false;
                    }
                }
                Node::Import { file } => {
                    if !self.file(*file) {
                        return false;
                    }
                }
                Node::Decl | Node::Filler { .. } => {}
                Node::DebugOfCall { tag, func, arg } => {
                    if !self.call_fn(fi, *func, *arg) {
                        return false;
                    }
                    let msg = if tag % 2 == 0 { arg.to_string() } else { format!("q{}-{}", tag, arg) };
                    self.out.push(Expected { kind: "debug".into(), file: self.files[fi].path.clone(), line: self.lines[fi][tag], msg });
                }
                Node::DebugMulti { tag, vars } => {
                    let m = Self::msg("d", *tag, vars, env);
                    let msg = if self.files[fi].sass || tag % 3 == 0 {
                        format!("(a: {}, b: 2)", m)
                    } else if tag % 3 == 1 {
                        format!("{} second third", m)
                    } else {
                        format!("[{} second]", m)
                    };
                    self.out.push(Expected { kind: "debug".into(), file: self.files[fi].path.clone(), line: self.lines[fi][tag], msg });
                }
                Node::BadSelector { tag } => {
                    self.error = Some(Expected { kind: "error".into(), file: self.files[fi].path.clone(), line: self.lines[fi][tag], msg: "*".into() });
                    return false;
                }
                Node::RawError { tag, .. } => {
                    self.error = Some(Expected { kind: "error".into(), file: "*".into(), line: self.lines[fi][tag], msg: "*".into() });
                    return false;
                }
                Node::CallForeign { file, func, arg, .. } => {
                    if !self.call_fn_opt(*file, *func, *arg, opt_form(*arg) == 0) {
                        return false;
                    }
                }
                Node::IncludeForeign { file, mixin, arg, content: c } => {
                    // the mixin's directives live in the file that defines it, the content block's in this one
                    if let Some(d) = self.files[*file].mixins[*mixin].default_func {
                        if opt_form(*arg) == 0 && !self.call_fn(*file, d, *arg) {
                            return false;
                        }
                    }
                    let m = &self.files[*file].mixins[*mixin];
                    let mut menv = BTreeMap::new();
                    menv.insert("a".to_string(), *arg);
                    let at = m.content_at.map(|a| a.min(m.body.len())).unwrap_or(m.body.len());
                    if !self.run(*file, &m.body[..at], &mut menv, None) {
                        return false;
                    }
                    if m.content_at.is_some() {
                        if let Some(cb) = c {
                            let mut cenv = env.clone();
                            if !self.run(fi, cb, &mut cenv, None) {
                                return false;
                            }
                        }
                    }
                    if !self.run(*file, &m.body[at..], &mut menv, None) {
                        return false;
                    }
                }
            }
        }
        true
    }
    fn file(&mut self, fi: usize) -> bool {
        for u in self.files[fi].uses.clone() {
            // a module is evaluated on its own, whatever rule the file that uses it was imported under
            let outer = std::mem::take(&mut self.sel);
            let ok = !self.used.insert(u) || self.file(u);
            self.sel = outer;
            if !ok {
                return false;
            }
        }
        let body = self.files[fi].body.clone();
        let mut env = BTreeMap::new();
        self.run(fi, &body, &mut env, None)
    }
}

#[derive(Clone, Debug)]
pub struct Script {
    pub job: JobSpec,
    pub expected: Vec<Expected>,
    pub error: Option<Expected>,
    pub n_imports: usize,
}

fn put_error(nodes: &mut Vec<Node>, rng: &mut Rng, tag: u32) {
    // place an @error somewhere in the top-level body or one level down
    let pos = rng.usize_below(nodes.len() + 1);
    if pos < nodes.len() && rng.chance(0.5) {
        match &mut nodes[pos] {
            Node::For { body, var, .. } | Node::Each { body, var, .. } => {
                let v = vec![var.clone()];
                let p = rng.usize_below(body.len() + 1);
                body.insert(p, Node::Error { tag, vars: v });
                return;
            }
            Node::Rule { body, .. } => {
                let p = rng.usize_below(body.len() + 1);
                body.insert(p, Node::Error { tag, vars: vec![] });
                return;
            }
            _ => {}
        }
    }
    if rng.chance(0.2) {
        nodes.insert(pos, Node::BadSelector { tag });
    } else {
        nodes.insert(pos, Node::Error { tag, vars: vec![] });
    }
}

pub fn gen_script(rng: &mut Rng, root: &str) -> Script {
    let nfiles = 1 + rng.below(4) as usize; // entry + 0..3 others
    let mut g = Gen { rng, next_tag: 0, budget: 0, salt: "" };
    let mut files: Vec<FileAst> = vec![];
    // file 0 is the entry; others are imported (possibly several times) or used (once)
    let mut importable: Vec<usize> = vec![];
    let mut usable: Vec<usize> = vec![];
    for i in 1..nfiles {
        if g.rng.chance(0.7) {
            importable.push(i);
        } else {
            usable.push(i);
        }
    }
    for i in 0..nfiles {
        let sass = g.rng.chance(0.25);
        let ext = if sass { "sass" } else { "scss" };
        let partial = i > 0 && g.rng.chance(0.4);
        let path = if i == 0 { format!("{}/main.{}", root, ext) } else { format!("{}/{}dep{}.{}", root, if partial { "_" } else { "" }, i, ext) };
        let nmix = g.rng.below(3) as usize;
        let nfun = g.rng.below(3) as usize;
        let mut mixins = vec![];
        for m in 0..nmix {
            g.budget = 6;
            let body = g.block(Where::Mixin, 1, &["a".to_string()], 0, 0, &[], false);
            let content_at = if g.rng.chance(0.4) { Some(g.rng.usize_below(body.len() + 1)) } else { None };
            let default_func = if nfun > 0 && g.rng.chance(0.35) { Some(g.rng.usize_below(nfun)) } else { None };
            mixins.push(Callable { name: format!("m{}x{}", i, m), body, content_at, default_func });
        }
        let mut funcs = vec![];
        for fnn in 0..nfun {
            g.budget = 5;
            let body = g.block(Where::Function, 1, &["a".to_string()], 0, fnn, &[], false);
            let default_func = if fnn > 0 && g.rng.chance(0.3) { Some(g.rng.usize_below(fnn)) } else { None };
            funcs.push(Callable { name: format!("f{}x{}", i, fnn), body, content_at: None, default_func });
        }
        g.budget = 14;
        // only the entry imports (imports of imports would multiply executions; one level is enough here)
        let imps: Vec<usize> = if i == 0 { importable.clone() } else { vec![] };
        let mut body = g.block(Where::Top, 0, &[], nmix, nfun, &imps, false);
        // make sure importable files are imported at least once, some several times
        if i == 0 {
            for &f in &importable {
                let times = if g.rng.chance(0.3) { 3 } else { 1 };
                for _ in 0..times {
                    let p = g.rng.usize_below(body.len() + 1);
                    body.insert(p, Node::Import { file: f });
                }
            }
        }
        files.push(FileAst { path, sass, tail: String::new(), uses: if i == 0 { usable.clone() } else { vec![] }, mixins, funcs, body });
    }
    // the entry includes mixins that an imported file defines (after the first import of that file):
    // their directives, and any error in them, are located in the imported file
    {
        let mut body = std::mem::take(&mut files[0].body);
        let mut extra: Vec<(usize, Node)> = vec![];
        for (pos, n) in body.iter().enumerate() {
            if let Node::Import { file } = n {
                let nm = files[*file].mixins.len();
                if nm > 0 && g.rng.chance(0.5) && !extra.iter().any(|(_, e)| matches!(e, Node::IncludeForeign { file: f2, .. } if f2 == file)) {
                    let mi = g.rng.usize_below(nm);
                    let content = if files[*file].mixins[mi].content_at.is_some() && g.rng.chance(0.7) {
                        g.budget = 3;
                        g.salt = "c";
                        let c = g.block(Where::Content, 2, &[], 0, 0, &[], false);
                        g.salt = "";
                        Some(c)
                    } else {
                        None
                    };
                    extra.push((pos + 1, Node::IncludeForeign { file: *file, mixin: mi, arg: g.rng.range(1, 9) as i64, content }));
                }
            }
        }
        for (k, (pos, node)) in extra.into_iter().enumerate() {
            body.insert(pos + k, node);
        }
        // members of `@use`d files, reached through the namespace or as first-class functions:
        // their directives are located in the file that defines them
        for u in files[0].uses.clone() {
            let nm = files[u].mixins.len();
            if nm > 0 && g.rng.chance(0.6) {
                let mi = g.rng.usize_below(nm);
                let content = if files[u].mixins[mi].content_at.is_some() && g.rng.chance(0.7) {
                    g.budget = 3;
                    g.salt = "c";
                    let c = g.block(Where::Content, 2, &[], 0, 0, &[], false);
                    g.salt = "";
                    Some(c)
                } else {
                    None
                };
                let pos = g.rng.usize_below(body.len() + 1);
                body.insert(pos, Node::IncludeForeign { file: u, mixin: mi, arg: g.rng.range(1, 9) as i64, content });
            }
            let nf = files[u].funcs.len();
            if nf > 0 && g.rng.chance(0.6) {
                let pos = g.rng.usize_below(body.len() + 1);
                body.insert(pos, Node::CallForeign { file: u, func: g.rng.usize_below(nf), arg: g.rng.range(1, 9) as i64, form: g.rng.chance(0.4) as u8 });
            }
        }
        files[0].body = body;
    }
    // an error in which two files take part: a mixin of an imported SCSS file uses a suffixed
    // parent reference; the entry includes it under a rule whose selector cannot take a suffix
    let mut cross_file_error = false;
    if !files[0].sass && g.rng.chance(0.12) {
        let pos_file = files[0].body.iter().enumerate().find_map(|(pos, n)| match n {
            Node::Import { file } if !files[*file].sass => Some((pos, *file)),
            _ => None,
        });
        if let Some((pos, k)) = pos_file {
            let tag = g.tag();
            files[k].tail.push_str(&format!("@mixin sfx{}() {{ &-sfx {{ x: y; }} }}\n", tag));
            let sel = *g.rng.pick(&["[data-k]", "*", ":not(.q)", ".p > "]);
            let text = if sel.ends_with("> ") { format!(".p {{ > {{ @include sfx{}; }} }}", tag) } else { format!("{} {{ @include sfx{}; }}", sel, tag) };
            files[0].body.insert(pos + 1, Node::RawError { tag, text });
            cross_file_error = true;
        }
    }
    // give content blocks to includes of mixins that use @content
    for fi in 0..files.len() {
        let mixins = files[fi].mixins.clone();
        fn fix(nodes: &mut Vec<Node>, mixins: &[Callable], g: &mut Gen, vars: &[String]) {
            for n in nodes.iter_mut() {
                match n {
                    Node::Include { mixin, content, .. } => {
                        if mixins[*mixin].content_at.is_some() && g.rng.chance(0.8) {
                            g.budget = 3;
                            g.salt = "c";
                            *content = Some(g.block(Where::Content, 2, vars, 0, 0, &[], false));
                            g.salt = "";
                        }
                    }
                    Node::For { body, var, .. } | Node::Each { body, var, .. } | Node::While { body, var, .. } => {
                        let mut v2 = vars.to_vec();
                        if v2.len() < 3 {
                            v2.push(var.clone());
                        }
                        fix(body, mixins, g, &v2)
                    }
                    Node::If { then, els, .. } => {
                        fix(then, mixins, g, vars);
                        fix(els, mixins, g, vars);
                    }
                    Node::Rule { body, .. } => fix(body, mixins, g, vars),
                    _ => {}
                }
            }
        }
        let mut body = std::mem::take(&mut files[fi].body);
        fix(&mut body, &mixins, &mut g, &[]);
        files[fi].body = body;
    }
    // optional @error
    if !cross_file_error && g.rng.chance(0.35) {
        let target = g.rng.usize_below(files.len());
        let tag = g.tag();
        let mut body = std::mem::take(&mut files[target].body);
        put_error(&mut body, g.rng, tag);
        files[target].body = body;
    }
    // print
    let cjk = g.rng.chance(0.3);
    let crlf = g.rng.chance(0.2);
    let no_final_newline = g.rng.chance(0.2);
    let tabs = g.rng.chance(0.15);
    let ws = if g.rng.chance(0.3) { g.rng.next_u64() | 1 } else { 0 };
    let mut texts = vec![];
    let mut lines = vec![];
    for f in &files {
        let mut p = Printer { out: String::new(), line: 0, sass: f.sass, cjk, lines: BTreeMap::new(), ws };
        p.file(f, &files);
        // CRLF line ends: line numbers stay the same, byte offsets and line terminators do not
        let mut t = if crlf { p.out.replace('\n', "\r\n") } else { p.out };
        if tabs && !f.sass {
            // SCSS does not care how lines are indented; error rendering has to cope with tabs
            t = t.replace("\n  ", "\n\t").replace("\t  ", "\t\t");
        }
        if no_final_newline && !f.sass {
            while t.ends_with('\n') || t.ends_with('\r') {
                t.pop();
            }
        }
        texts.push(t);
        lines.push(p.lines);
    }
    // execute the tree
    let mut ex = Exec { files: &files, lines: &lines, out: vec![], error: None, used: BTreeSet::new(), returned: false, sel: vec![] };
    ex.file(0);
    let mut job = JobSpec::default();
    job.cwd = root.to_string();
    job.files = files.iter().zip(texts.iter()).map(|(f, t)| (f.path.clone(), t.clone().into_bytes())).collect();
    let entry_abs = files[0].path.clone();
    job.entry = Entry::Path(if g.rng.chance(0.5) { entry_abs.clone() } else { entry_abs[root.len() + 1..].to_string() });
    job.compressed = g.rng.chance(0.4);
    job.unicode = g.rng.chance(0.5);
    job.canon = if g.rng.chance(0.5) { CanonMode::Identity } else { CanonMode::Absolute };
    job.eval_fuel = 2_000_000;
    Script { job, expected: ex.out, error: ex.error, n_imports: importable.len() }
}

// ---------------------------------------------------------------- oracle

fn same_delivery(cwd: &str, d: &LogEvent, e: &Expected) -> bool {
    d.kind == e.kind && (d.msg == e.msg || e.msg == "*") && d.line == e.line && normalize(cwd, &d.file) == normalize(cwd, &e.file)
}

/// `prefix_ok`: the delivered list may stop early (a fault made the run fail).
fn compare_log(cwd: &str, delivered: &[LogEvent], expected: &[Expected], prefix_ok: bool) -> Option<String> {
    // a @warn whose (site, message) already occurred may or may not be delivered again
    let mut seen: BTreeSet<(String, usize, String)> = BTreeSet::new();
    let mut di = 0usize;
    for (ei, e) in expected.iter().enumerate() {
        let optional = e.kind == "warn" && !seen.insert((e.file.clone(), e.line, e.msg.clone()));
        if di < delivered.len() && same_delivery(cwd, &delivered[di], e) {
            di += 1;
            continue;
        }
        if optional {
            continue;
        }
        if di >= delivered.len() {
            if prefix_ok {
                return None;
            }
            return Some(format!("delivery #{} missing: expected {} {:?} at {}:{} but the Logger received nothing more ({} delivered)", ei, e.kind, e.msg, e.file, e.line, delivered.len()));
        }
        let d = &delivered[di];
        return Some(format!("delivery #{} differs: expected {} {:?} at {}:{}, Logger received {} {:?} at {}:{}:{}", ei, e.kind, e.msg, e.file, e.line, d.kind, d.msg, d.file, d.line, d.col));
    }
    if di < delivered.len() {
        let d = &delivered[di];
        return Some(format!("unexpected extra delivery: {} {:?} at {}:{} (after {} expected ones)", d.kind, d.msg, d.file, d.line, expected.len()));
    }
    None
}

fn expected_to_json(e: &Expected) -> Value {
    json!({"kind": e.kind, "file": e.file, "line": e.line, "msg": e.msg})
}

fn expected_from_json(v: &Value) -> Option<Expected> {
    Some(Expected { kind: v.get("kind")?.as_str()?.into(), file: v.get("file")?.as_str()?.into(), line: v.get("line")?.as_u64()? as usize, msg: v.get("msg")?.as_str()?.into() })
}

fn case_json(job: &JobSpec, expected: &[Expected], error: &Option<Expected>, mode: &str) -> Value {
    json!({"job": job.to_json(), "expected": expected.iter().map(expected_to_json).collect::<Vec<_>>(), "error": error.as_ref().map(expected_to_json), "mode": mode})
}

/// mode: "plain" (exact list), "quiet" (nothing), "prefix" (fault on intact text), "located" (content fault: only error checks)
fn judge(job: &JobSpec, expected: &[Expected], error: &Option<Expected>, mode: &str, r: &JobResult) -> Vec<(String, String)> {
    let mut v = vec![];
    if let Some(l) = &r.stdio_leak {
        v.push(("stdio-leak".into(), format!("a custom Logger was supplied, yet the library wrote to stdout/stderr: {:?}", l.chars().take(300).collect::<String>())));
    }
    match &r.outcome {
        Outcome::Panic { loc, msg } => {
            v.push((format!("panic@{}", loc), msg.clone()));
            return v;
        }
        Outcome::Hang { kind, site } => {
            if mode != "located" {
                v.push((format!("hang({})@{}", kind, site), "did not terminate".into()));
            }
            return v;
        }
        _ => {}
    }
    for d in &r.log {
        if d.thread != usize::MAX && d.thread != crate::sched::current_tid() {
            v.push(("cross-delivery".into(), format!("a Logger received an event from thread {}", d.thread)));
        }
    }
    // every error: located inside a file that was delivered, renders, starts with Error: <message>
    if let Outcome::Err(e) = &r.outcome {
        if let Some(p) = &e.loc_problem {
            v.push(("unlocated-error".into(), format!("{} — error: {}", p, e.display.chars().take(300).collect::<String>())));
        }
    }
    match mode {
        "quiet" | "quiet-only" => {
            if !r.log.is_empty() {
                let d = &r.log[0];
                v.push(("quiet-ignored".into(), format!("quiet is set, yet the Logger received {} {:?} at {}:{}", d.kind, d.msg, d.file, d.line)));
            }
        }
        "plain" | "prefix" => {
            if let Some(p) = compare_log(&job.cwd, &r.log, expected, mode == "prefix") {
                v.push((if mode == "prefix" { "log-not-a-prefix".into() } else { "log-mismatch".into() }, p));
            }
        }
        _ => {}
    }
    if mode == "plain" || mode == "quiet" {
        match (error, &r.outcome) {
            (Some(ee), Outcome::Err(e)) => {
                if ee.msg == SAME_AS_INSPECT {
                    if e.kind != "parse" || e.line != ee.line || normalize(&job.cwd, &e.file) != normalize(&job.cwd, &ee.file) {
                        v.push(("error-mismatch".into(), format!("expected the @error at {}:{}, got kind={} message={:?} at {}:{}", ee.file, ee.line, e.kind, e.message, e.file, e.line)));
                    } else if mode == "plain" {
                        // the delivery just before the error is `@debug inspect(<the same expression>)`
                        match r.log.last() {
                            Some(d) if d.kind == "debug" && d.line + 1 == ee.line => {
                                if d.msg != e.message {
                                    v.push(("error-not-inspected".into(), format!("@error at {}:{} reports {:?}, but inspect() of the same expression, printed by the line before, is {:?}", ee.file, ee.line, e.message, d.msg)));
                                }
                            }
                            _ => {} // a missing delivery is reported by the log comparison
                        }
                    }
                } else if ee.msg == "*" {
                    // an error of the implementation's own wording: it must be a located error in the right file
                    if e.kind != "parse" || (ee.file != "*" && normalize(&job.cwd, &e.file) != normalize(&job.cwd, &ee.file)) {
                        v.push(("error-mismatch".into(), format!("expected a located error in {}, got kind={} in {:?}: {}", ee.file, e.kind, e.file, e.message)));
                    }
                } else if e.kind != "parse" || e.message != ee.msg || e.line != ee.line || normalize(&job.cwd, &e.file) != normalize(&job.cwd, &ee.file) {
                    v.push(("error-mismatch".into(), format!("expected @error {} at {}:{}, got kind={} message={:?} at {}:{}", ee.msg, ee.file, ee.line, e.kind, e.message, e.file, e.line)));
                }
            }
            (Some(ee), Outcome::Ok(_)) => v.push(("error-lost".into(), format!("the program executes @error {} at {}:{} but compilation succeeded", ee.msg, ee.file, ee.line))),
            (None, Outcome::Err(e)) => v.push(("unexpected-error".into(), format!("the script has no reachable @error, yet: {}", e.display.chars().take(300).collect::<String>()))),
            _ => {}
        }
    }
    if mode == "prefix" {
        if let Outcome::Ok(_) = &r.outcome {
            // a retried read would be fine; SimFs faults fire once, a retry is a later op
            let swallowed = r.fs.iter().any(|ev| ev.op == FsOp::Read && ev.faulted && !r.fs.iter().any(|e2| e2.k > ev.k && e2.op == FsOp::Read && e2.norm == ev.norm && !e2.faulted));
            if swallowed {
                v.push(("swallowed-read-error".into(), "a read failed but compilation returned Ok".into()));
            }
        }
    }
    v
}

fn flip_unicode_check(job: &JobSpec, r: &JobResult) -> Option<String> {
    // render the same error in the other mode: must not fail and must start with Error: <message>
    if let Outcome::Err(e) = &r.outcome {
        let mut j2 = job.clone();
        j2.unicode = !job.unicode;
        let r2 = run_job(&j2);
        match &r2.outcome {
            Outcome::Err(e2) => {
                if e2.message != e.message || e2.line != e.line || e2.col != e.col || e2.file != e.file {
                    return Some(format!("the error differs between Unicode and ASCII mode: {:?} at {}:{}:{} vs {:?} at {}:{}:{}", e.message, e.file, e.line, e.col, e2.message, e2.file, e2.line, e2.col));
                }
                if let Some(p) = &e2.loc_problem {
                    return Some(p.clone());
                }
                let (uni, asc) = if job.unicode { (&e.display, &e2.display) } else { (&e2.display, &e.display) };
                if e.kind == "parse" && !uni.contains('╷') {
                    return Some("Unicode-mode rendering lacks the box characters".into());
                }
                if e.kind == "parse" && (asc.contains('╷') || asc.contains('╵')) {
                    return Some("ASCII-mode rendering contains box-drawing characters".into());
                }
                None
            }
            other => Some(format!("with unicode flipped the outcome changed kind: {}", other.brief())),
        }
    } else {
        None
    }
}

fn script_units(ctx: &Ctx) -> u64 {
    if ctx.tier == "thorough" {
        60_000
    } else {
        4_000
    }
}

fn sweep_units(ctx: &Ctx) -> u64 {
    if ctx.tier == "thorough" {
        ctx.corpus.len() as u64
    } else {
        700
    }
}

impl LoggerEngine {
    /// "All failing inputs from C01's generators": a corpus item — intact if the suite expects
    /// an error from it, and torn / bit-flipped / look-alike-substituted variants of it — as
    /// entry file and as imported file, with LF and CRLF line ends. Whatever error comes out
    /// must name a file the Fs delivered, lie inside the text delivered under that name, and
    /// render in both modes starting with `Error: <message>`; nothing may reach stdout/stderr.
    fn error_sweep_unit(&self, ctx: &Ctx, unit: u64, progress: Progress) -> UnitResult {
        let mut res = UnitResult::default();
        let mut rng = Rng::new(mix(mix_str(ctx.seed, "logger-sweep"), unit));
        let item = if ctx.tier == "thorough" { &ctx.corpus[unit as usize % ctx.corpus.len()] } else { &ctx.corpus[rng.usize_below(ctx.corpus.len())] };
        res.bump("error_sweep_items", 1);
        if item.input.len() > 4096 || item.input.is_empty() {
            return res;
        }
        let ext = item.native_syntax();
        let mut texts: Vec<(String, &'static str)> = vec![(item.input.clone(), "lf")];
        if item.input.contains('\n') {
            texts.push((item.input.replace('\n', "\r\n"), "crlf"));
        }
        let mut idx = 0u64;
        for (text, _le) in texts {
            let b = text.as_bytes();
            // variants of the text: intact, torn, flipped, look-alike
            let mut variants: Vec<Vec<u8>> = vec![b.to_vec()];
            for _ in 0..10 {
                variants.push(b[..rng.usize_below(b.len())].to_vec());
            }
            for _ in 0..8 {
                variants.push(crate::simfs::apply_content_fault(b, &ContentFault::BitFlip(rng.usize_below(b.len()), rng.below(7) as u8)));
            }
            let spots: Vec<usize> = (0..b.len()).filter(|&i| crate::case::confusable_of(b[i]).is_some()).collect();
            for _ in 0..4 {
                if !spots.is_empty() {
                    variants.push(crate::simfs::apply_content_fault(b, &ContentFault::Confusable(*rng.pick(&spots))));
                }
            }
            for v in variants {
                for via in ["entry", "import", "use"] {
                    if via != "entry" && ext == "css" && rng.chance(0.5) {
                        continue;
                    }
                    let mut job = JobSpec::default();
                    job.cwd = "/w".into();
                    job.eval_fuel = 50_000;
                    job.depth_limit = 200;
                    job.unicode = rng.chance(0.5);
                    job.quiet = rng.chance(0.3);
                    job.canon = if rng.chance(0.5) { CanonMode::Identity } else { CanonMode::Absolute };
                    let target = format!("/w/x.{}", ext);
                    if via == "entry" {
                        job.files = vec![(target.clone(), v.clone())];
                        job.entry = Entry::Path(if rng.chance(0.5) { target.clone() } else { format!("x.{}", ext) });
                    } else {
                        let main = if via == "import" { "// entry\n\n@import \"x\";\n" } else { "// entry\n@use \"x\";\n" };
                        job.files = vec![("/w/main.scss".into(), main.as_bytes().to_vec()), (target.clone(), v.clone())];
                        job.entry = Entry::Path("main.scss".into());
                    }
                    let i = idx;
                    idx += 1;
                    if !progress(i, &|| case_json(&job, &[], &None, "located")) {
                        continue;
                    }
                    let r = run_job(&job);
                    res.fold_job(&r);
                    res.bump("evaluations", 1);
                    res.bump("mode.located-sweep", 1);
                    if let Outcome::Err(e) = &r.outcome {
                        res.bump("errors_location_checked", 1);
                        res.bump(&format!("sweep_errkind.{}", e.kind), 1);
                        res.distinct.push(hash_bytes(23, format!("{}|{}|{}", e.message, via, ext).as_bytes()));
                        if via != "entry" && e.kind == "parse" && normalize("/w", &e.file) == target {
                            res.bump("probe.error_located_in_imported_file", 1);
                        }
                    }
                    let mut viol = judge(&job, &[], &None, "located", &r);
                    if let Some(p) = flip_unicode_check(&job, &r) {
                        viol.push(("render-mode-mismatch".into(), p));
                    }
                    if !viol.is_empty() {
                        let cj = case_json(&job, &[], &None, "located");
                        for (class, detail) in viol {
                            res.violations.push(Violation { property: "C19".into(), class, detail: format!("{}\noutcome: {}", detail, r.outcome.brief()), case: cj.clone() });
                        }
                    }
                }
            }
        }
        res
    }
}

impl Engine for LoggerEngine {
    fn name(&self) -> &'static str {
        "logger"
    }
    fn property(&self) -> &'static str {
        "C19"
    }
    fn level(&self) -> &'static str {
        "exploration"
    }
    fn units(&self, ctx: &Ctx) -> u64 {
        script_units(ctx) + sweep_units(ctx)
    }
    fn run_unit(&self, ctx: &Ctx, unit: u64, progress: Progress) -> UnitResult {
        if unit >= script_units(ctx) {
            return self.error_sweep_unit(ctx, unit - script_units(ctx), progress);
        }
        let mut res = UnitResult::default();
        let mut rng = Rng::new(mix(mix_str(ctx.seed, "logger"), unit));
        let root = "/w".to_string();
        let mut idx = 0u64;
        let mut go = |job: &JobSpec, expected: &[Expected], error: &Option<Expected>, mode: &str, res: &mut UnitResult, check_flip: bool| -> Option<JobResult> {
            let i = idx;
            idx += 1;
            if !progress(i, &|| case_json(job, expected, error, mode)) {
                return None;
            }
            let r = run_job(job);
            res.fold_job(&r);
            res.bump("evaluations", 1);
            res.bump(&format!("mode.{}", mode), 1);
            res.bump("deliveries_checked", r.log.len() as u64);
            if job.faults.is_empty() {
                res.bump("fault_free_runs", 1);
            } else {
                res.bump("faulted_runs", 1);
            }
            for (k, f) in job.faults.iter().enumerate() {
                if r.fired.get(k).copied().unwrap_or(false) {
                    res.bump(&format!("fired.{}", f.kind()), 1);
                }
            }
            if let Outcome::Err(e) = &r.outcome {
                res.bump("errors_location_checked", 1);
                if e.kind == "parse" && normalize(&job.cwd, &e.file) != normalize(&job.cwd, &job.files[0].0) {
                    res.bump("probe.error_located_in_imported_file", 1);
                }
            }
            let mut viol = judge(job, expected, error, mode, &r);
            if check_flip {
                if let Some(p) = flip_unicode_check(job, &r) {
                    viol.push(("render-mode-mismatch".into(), p));
                }
                res.bump("evaluations", 1);
            }
            if !viol.is_empty() {
                let cj = case_json(job, expected, error, mode);
                for (class, detail) in viol {
                    res.violations.push(Violation { property: "C19".into(), class, detail: format!("{}\noutcome: {}", detail, r.outcome.brief()), case: cj.clone() });
                }
            }
            Some(r)
        };
        for _ in 0..12 {
            let sc = gen_script(&mut rng, &root);
            let h = hash_bytes(21, sc.job.to_json().to_string().as_bytes());
            if !sc.expected.is_empty() || sc.error.is_some() {
                res.distinct.push(h);
            }
            res.bump("scripts", 1);
            res.bump("expected_deliveries", sc.expected.len() as u64);
            if sc.error.is_some() {
                res.bump("scripts_with_error", 1);
            }
            if sc.error.as_ref().map_or(false, |e| e.msg == SAME_AS_INSPECT) {
                res.bump("probe.error_text_compared_with_inspect_of_same_expression", 1);
            }
            if sc.expected.iter().any(|e| normalize("/w", &e.file) != normalize("/w", &sc.job.files[0].0)) {
                res.bump("probe.delivery_from_imported_file", 1);
            }
            {
                let entry_text = String::from_utf8_lossy(&sc.job.files[0].1).into_owned();
                if entry_text.contains("meta.get-function(") {
                    res.bump("probe.first_class_function_of_used_module_called", 1);
                }
                if entry_text.contains("@include u") || entry_text.contains("$_r: u") {
                    res.bump("probe.member_of_used_module_called_through_namespace", 1);
                }
                if sc.job.files.iter().any(|(_, t)| String::from_utf8_lossy(t).contains(", $o: ")) {
                    res.bump("probe.callable_with_default_expression", 1);
                }
                if sc.job.files.iter().any(|(_, t)| t.windows(3).any(|w| w == b"\n \n" || w == b"\n\t\n") || t.windows(4).any(|w| w == b"\n  \n")) {
                    res.bump("probe.whitespace_only_line", 1);
                }
            }
            {
                let mut counts: BTreeMap<(String, usize), usize> = BTreeMap::new();
                for e in &sc.expected {
                    *counts.entry((e.file.clone(), e.line)).or_insert(0) += 1;
                }
                if counts.values().any(|&c| c >= 3) {
                    res.bump("probe.directive_executed_3plus_times", 1);
                }
            }
            let r0 = go(&sc.job, &sc.expected, &sc.error, "plain", &mut res, sc.error.is_some());
            if res.samples.len() < 2 && sc.expected.len() >= 4 {
                res.samples.push(json!({"files": sc.job.files.iter().map(|(p, b)| json!({"path": p, "text": String::from_utf8_lossy(b)})).collect::<Vec<_>>(),
                    "expected": sc.expected.iter().map(expected_to_json).collect::<Vec<_>>(), "error": sc.error.as_ref().map(expected_to_json)}));
            }
            // quiet: nothing reaches the Logger, same outcome
            let mut q = sc.job.clone();
            q.quiet = true;
            let rq = go(&q, &sc.expected, &sc.error, "quiet", &mut res, false);
            if let (Some(a), Some(b)) = (&r0, &rq) {
                if a.outcome.observable() != b.outcome.observable() {
                    res.violations.push(Violation { property: "C19".into(), class: "quiet-changes-result".into(), detail: format!("quiet changed the result: {} vs {}", a.outcome.brief(), b.outcome.brief()), case: case_json(&q, &sc.expected, &sc.error, "quiet") });
                }
            }
            // quiet must also silence warnings that do not come from @warn/@debug: the one
            // such source in grass is meta.load-css with $with. The variant prepends
            // `@use "sass:meta"` and appends such a call to the entry; it is run under
            // quiet only (no expectation about the text of that warning is encoded).
            {
                let mut j = sc.job.clone();
                j.quiet = true;
                let sass = j.files[0].0.ends_with(".sass");
                let semi = if sass { "" } else { ";" };
                let nl = if j.files[0].1.windows(2).any(|w| w == b"\r\n") { "\r\n" } else { "\n" };
                let mut t = format!("@use \"sass:meta\"{}{}", semi, nl).into_bytes();
                t.extend_from_slice(&j.files[0].1);
                t.extend_from_slice(format!("{}@include meta.load-css(\"qdep\", $with: ()){}{}", nl, semi, nl).as_bytes());
                j.files[0].1 = t;
                j.files.push((format!("{}/_qdep.scss", root), b".q { r: s; }\n".to_vec()));
                go(&j, &[], &None, "quiet-only", &mut res, false);
            }
            // faults on the reads of imported files (intact text: prefix rule)
            if let Some(r0) = &r0 {
                for ev in r0.fs.iter().filter(|e| e.op == FsOp::Read).skip(1) {
                    if rng.chance(0.6) {
                        let mut j = sc.job.clone();
                        j.faults = vec![Fault::ReadErr { at: ev.k, kind: *rng.pick(&[IoKind::NotFound, IoKind::PermissionDenied, IoKind::Interrupted, IoKind::Other, IoKind::LongTextA, IoKind::EmptyText, IoKind::MultiLineText]) }];
                        go(&j, &sc.expected, &sc.error, "prefix", &mut res, false);
                    }
                }
                for ev in r0.fs.iter().filter(|e| e.op == FsOp::IsFile && e.result == "true") {
                    if rng.chance(0.2) {
                        let mut j = sc.job.clone();
                        j.faults = vec![Fault::Vanish { at: ev.k + 1, target: Some(ev.path.clone()) }];
                        go(&j, &sc.expected, &sc.error, "prefix", &mut res, false);
                    }
                }
                // a file that is imported several times CHANGES between two reads (an editor saved
                // it): whatever is reported afterwards must be located in the text that was delivered
                {
                    let reads: Vec<&crate::simfs::FsEvent> = r0.fs.iter().filter(|e| e.op == FsOp::Read).collect();
                    for (i, ev) in reads.iter().enumerate() {
                        if reads[..i].iter().any(|p| p.norm == ev.norm) {
                            if let Some((_, old)) = sc.job.files.iter().find(|(p, _)| normalize(&sc.job.cwd, p) == ev.norm) {
                                let sass = ev.norm.ends_with(".sass");
                                let mut newb = old.clone();
                                newb.extend_from_slice(if sass { b"\n@error \"changed-on-second-read\"\n" } else { b"\n@error \"changed-on-second-read\";\n" });
                                let mut j = sc.job.clone();
                                j.faults = vec![Fault::Appear { at: ev.k, path: ev.norm.clone(), bytes: newb }];
                                go(&j, &sc.expected, &sc.error, "located", &mut res, true);
                                res.bump("probe.file_changed_between_two_imports", 1);
                            }
                            break;
                        }
                    }
                }
                // corrupted text: only the error-location / rendering / routing checks apply
                for (p, b) in &sc.job.files {
                    if b.is_empty() {
                        continue;
                    }
                    for _ in 0..3 {
                        let what = match rng.below(3) {
                            0 => ContentFault::Torn(rng.usize_below(b.len())),
                            1 => ContentFault::BitFlip(rng.usize_below(b.len()), rng.below(7) as u8),
                            _ => ContentFault::ZeroTail(rng.usize_below(b.len())),
                        };
                        let mut j = sc.job.clone();
                        j.faults = vec![Fault::Content { path: p.clone(), what }];
                        j.depth_limit = 200;
                        // corrupted text may loop for long (a flipped digit in a bound): only errors are checked here
                        j.eval_fuel = 50_000;
                        go(&j, &sc.expected, &sc.error, "located", &mut res, true);
                    }
                }
            }
        }
        res
    }
    fn exec(&self, _ctx: &Ctx, case: &Value) -> Vec<Violation> {
        let bad = |m: &str| vec![Violation { property: "C19".into(), class: "bad-case".into(), detail: m.into(), case: case.clone() }];
        let job = match case.get("job").and_then(JobSpec::from_json) {
            Some(j) => j,
            None => return bad("unparsable job"),
        };
        let expected: Vec<Expected> = case.get("expected").and_then(|a| a.as_array()).map(|a| a.iter().filter_map(expected_from_json).collect()).unwrap_or_default();
        let error = case.get("error").and_then(expected_from_json);
        let mode = case.get("mode").and_then(|m| m.as_str()).unwrap_or("plain").to_string();
        let r = run_job(&job);
        let mut viol = judge(&job, &expected, &error, &mode, &r);
        if let Some(p) = flip_unicode_check(&job, &r) {
            viol.push(("render-mode-mismatch".into(), p));
        }
        if mode == "quiet" {
            let mut j2 = job.clone();
            j2.quiet = false;
            let r2 = run_job(&j2);
            if r2.outcome.observable() != r.outcome.observable() {
                viol.push(("quiet-changes-result".into(), format!("quiet changed the result: {} vs {}", r2.outcome.brief(), r.outcome.brief())));
            }
        }
        viol.into_iter().map(|(class, detail)| Violation { property: "C19".into(), class, detail: format!("{}\noutcome: {}", detail, r.outcome.brief()), case: case.clone() }).collect()
    }
    fn shrink(&self, case: &Value) -> Vec<Value> {
        // the expected list belongs to the text, so the text cannot be cut freely; only faults and options shrink
        let job = match case.get("job").and_then(JobSpec::from_json) {
            Some(j) => j,
            None => return vec![],
        };
        let mut out = vec![];
        let mut variants = vec![];
        if job.compressed {
            let mut j = job.clone();
            j.compressed = false;
            variants.push(j);
        }
        if job.canon != CanonMode::Identity {
            let mut j = job.clone();
            j.canon = CanonMode::Identity;
            variants.push(j);
        }
        for j in variants {
            let mut c = case.clone();
            c["job"] = j.to_json();
            out.push(c);
        }
        out
    }
    fn rule(&self) -> String {
        "seeded logger scripts over a closed grammar (debug | warn | for | each | while | if/else | style rule | include of a mixin with or without @content | function call | @import (some files imported 3 times) | @use of a module, optional @error), 1-4 files, SCSS and indented syntax; every message is made unique per execution by interpolating the enclosing loop indices; the generator executes its own tree to obtain the exact expected delivery list (kind, file, line, message). Each script is run plain (exact list), quiet (nothing may be delivered, same result), with read_err/vanish faults on imported files (delivered list must be a prefix) and with torn/bit-flipped/zero-tailed files (only error location, rendering and routing are checked). Every error met is checked for a location inside the text the Fs delivered under the name the error carries and is rendered in both modes. A second kind of unit sweeps the corpus for failing inputs (items the suite expects an error from, and torn / bit-flipped / look-alike-substituted variants of any item, LF and CRLF, as entry and as imported file) and applies the same error checks. Non-trivial = scripts with at least one expected delivery or a reachable @error; distinct by script text and options.".into()
    }
    fn assumptions(&self) -> Vec<String> {
        vec![
            "location validity is claimed only for errors the simulation produces (logger scripts ending in @error, missing/failed imports, torn or corrupted files), not for the whole space of failing inputs".into(),
            "a @warn whose (directive, message) pair repeats within one compilation may or may not be delivered again: the statement promises delivery per distinct message".into(),
            "file names are compared after lexical normalisation against the virtual cwd; columns are recorded but not compared (the statement promises file and line)".into(),
            "stdout/stderr of the worker process are redirected to a memfd for its whole life; the harness talks to the driver on a separate descriptor".into(),
        ]
    }
    fn extra_evidence(&self, stats: &BTreeMap<String, u64>) -> Value {
        let mut fired = serde_json::Map::new();
        for (k, v) in stats {
            if let Some(kind) = k.strip_prefix("fired.") {
                fired.insert(kind.to_string(), json!(v));
            }
        }
        json!({
            "faults_fired_by_kind": fired,
            "fault_free_runs": stats.get("fault_free_runs").copied().unwrap_or(0),
            "faulted_runs": stats.get("faulted_runs").copied().unwrap_or(0),
            "deliveries_checked": stats.get("deliveries_checked").copied().unwrap_or(0),
            "simulated_time": "not applicable (no clock in grass); concurrency of loggers is exercised by the sched engine (C02), which compares every job's logger history with its reference",
            "real_vs_stub": {"real": ["parsers, evaluator (visit_debug_rule, visit_warn_rule, emit_warning, @error), error rendering"], "stub": ["Logger (recorder)", "Fs (SimFs)"]},
        })
    }
}
