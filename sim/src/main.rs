//! grass-sim: deterministic simulation with fault injection for grass.

mod case;
mod corpus;
mod detalloc;
mod driver;
mod engine;
mod engine_cli;
mod engine_fsfault;
mod engine_imports;
mod engine_logger;
mod engine_sched;
mod gen_project;
mod job;
mod prng;
mod sched;
mod seams;
mod shrink;
mod simfs;
mod worker;

use std::sync::Arc;

use engine::Ctx;

#[global_allocator]
static GLOBAL: detalloc::DetAlloc = detalloc::DetAlloc;

pub const DEFAULT_SEED: u64 = 20260923;

fn arg_val(args: &[String], name: &str) -> Option<String> {
    args.iter().position(|a| a == name).and_then(|i| args.get(i + 1).cloned())
}

fn make_ctx(args: &[String]) -> Ctx {
    let seed = arg_val(args, "--seed")
        .or_else(|| std::env::var("VERIF_SEED").ok())
        .and_then(|s| s.trim().parse::<i64>().ok().map(|x| x as u64).or_else(|| s.trim().parse::<u64>().ok()))
        .unwrap_or(DEFAULT_SEED);
    let tier = std::env::var("VERIF_TIER").ok().filter(|t| t == "quick" || t == "thorough").or_else(|| arg_val(args, "--tier")).unwrap_or_else(|| "quick".into());
    let repo = arg_val(args, "--repo").or_else(|| std::env::var("VERIF_REPO").ok()).unwrap_or_else(|| "/repo".into());
    let target = arg_val(args, "--target").or_else(|| std::env::var("VERIF_TARGET").ok()).unwrap_or_else(|| "/verif/target".into());
    let corpus = Arc::new(corpus::extract(&repo));
    Ctx { seed, tier, repo, corpus, target }
}

fn main() {
    let args: Vec<String> = std::env::args().collect();
    let cmd = args.get(1).map(|s| s.as_str()).unwrap_or("");
    match cmd {
        "worker" => {
            let ctx = make_ctx(&args);
            worker::worker_main(ctx);
        }
        "run" => {
            let ename = args.get(2).cloned().unwrap_or_default();
            let eng = match engine::engine_by_name(&ename) {
                Some(e) => e,
                None => {
                    println!("HARNESS-ERROR unknown engine {:?}", ename);
                    std::process::exit(2);
                }
            };
            let ctx = make_ctx(&args);
            if ctx.corpus.len() < 1000 {
                println!("HARNESS-ERROR corpus extraction found only {} items under {}", ctx.corpus.len(), ctx.repo);
                std::process::exit(2);
            }
            let workers = arg_val(&args, "--workers").and_then(|s| s.parse().ok()).unwrap_or_else(|| std::thread::available_parallelism().map(|n| n.get()).unwrap_or(8));
            let cfg = driver::RunConfig {
                workers,
                max_units: arg_val(&args, "--units").and_then(|s| s.parse().ok()),
                verif_dir: arg_val(&args, "--verif").unwrap_or_else(|| "/verif".into()),
                minimise_budget_s: arg_val(&args, "--minimise-s").and_then(|s| s.parse().ok()).unwrap_or(if ctx.tier == "thorough" { 240 } else { 60 }),
                time_budget_s: arg_val(&args, "--time-s").and_then(|s| s.parse().ok()),
                known_path: arg_val(&args, "--known").unwrap_or_else(|| format!("{}/known_findings.json", arg_val(&args, "--verif").unwrap_or_else(|| "/verif".into()))),
            };
            std::process::exit(driver::drive(eng, ctx, cfg));
        }
        "replay" => {
            let path = args.get(2).cloned().unwrap_or_default();
            let code = driver::replay_file(&path, |_v| make_ctx(&args));
            std::process::exit(code);
        }
        "exec-local" => {
            // debugging aid: run a replay file's case in this process, stdio not captured
            let path = args.get(2).cloned().unwrap_or_default();
            let v: serde_json::Value = serde_json::from_str(&std::fs::read_to_string(&path).expect("read")).expect("json");
            let eng = engine::engine_by_name(v.get("engine").and_then(|e| e.as_str()).unwrap_or("")).expect("engine");
            let ctx = make_ctx(&args);
            job::init_custom_fns();
            grass_compiler::verif::force_lazies();
            let case = v.get("case").cloned().unwrap();
            let h = std::thread::Builder::new().stack_size(eng.stack_bytes()).spawn(move || eng.exec(&ctx, &case)).unwrap();
            for x in h.join().unwrap() {
                println!("{} :: {}", x.class, x.detail);
            }
        }
        "determinism" => {
            // run the first N units of an engine three times (16 workers, 3 workers, 16 workers)
            // and compare the per-unit digests of everything observed
            let ename = args.get(2).cloned().unwrap_or_default();
            let ctx = make_ctx(&args);
            let n: u64 = arg_val(&args, "--units").and_then(|s| s.parse().ok()).unwrap_or(100);
            let eng: std::sync::Arc<dyn engine::Engine> = match engine::engine_by_name(&ename) {
                Some(e) => std::sync::Arc::from(e),
                None => {
                    println!("HARNESS-ERROR unknown engine");
                    std::process::exit(2);
                }
            };
            let mut runs = vec![];
            for w in [16usize, 3, 16] {
                match driver::digests(eng.clone(), &ctx, n, w) {
                    Ok(m) => runs.push(m),
                    Err(e) => {
                        println!("HARNESS-ERROR {}", e);
                        std::process::exit(2);
                    }
                }
            }
            let mut diff = 0;
            for u in 0..n {
                let a = runs[0].get(&u);
                if runs[1].get(&u) != a || runs[2].get(&u) != a {
                    diff += 1;
                    if diff <= 10 {
                        println!("NONDETERMINISTIC unit {}: {:?} {:?} {:?}", u, a, runs[1].get(&u), runs[2].get(&u));
                    }
                }
            }
            println!("determinism[{}]: {} units x 3 executions (16/3/16 workers), {} units differ", ename, n, diff);
            std::process::exit(if diff == 0 { 0 } else { 2 });
        }
        "selftest" => {
            let f = seams::selftest();
            for x in &f {
                println!("SELFTEST-FAIL {}", x);
            }
            println!("selftest: {} failures", f.len());
            std::process::exit(if f.is_empty() { 0 } else { 2 });
        }
        "corpus" => {
            let ctx = make_ctx(&args);
            let n = ctx.corpus.len();
            let sass = ctx.corpus.iter().filter(|c| c.native_syntax() == "sass").count();
            let err = ctx.corpus.iter().filter(|c| c.is_error).count();
            let bytes: usize = ctx.corpus.iter().map(|c| c.input.len()).sum();
            println!("items={} sass={} error={} bytes={}", n, sass, err, bytes);
            if args.iter().any(|a| a == "--dump") {
                for c in ctx.corpus.iter() {
                    println!("{}::{} {:?} opts={:?}", c.file, c.name, c.input.chars().take(60).collect::<String>(), c.opts);
                }
            }
        }
        _ => {
            println!("usage: grass-sim run <engine> [--tier quick|thorough] [--seed N] [--workers K] [--units M] | replay <file> | corpus");
            std::process::exit(2);
        }
    }
}
