//! Generic shrinking candidates for a JobSpec (greedy delta debugging steps).

use crate::case::{ContentFault, Entry, Fault, JobSpec};
use crate::simfs::apply_content_fault;

fn text_candidates(t: &[u8]) -> Vec<Vec<u8>> {
    let mut out: Vec<Vec<u8>> = vec![];
    let n = t.len();
    if n == 0 {
        return out;
    }
    // halves, quarters
    for parts in [2usize, 4, 8] {
        if n >= parts {
            let sz = n / parts;
            for i in 0..parts {
                let (a, b) = (i * sz, if i + 1 == parts { n } else { (i + 1) * sz });
                let mut v = t[..a].to_vec();
                v.extend_from_slice(&t[b..]);
                out.push(v);
            }
        }
    }
    // single lines
    let mut starts = vec![0usize];
    for (i, &c) in t.iter().enumerate() {
        if c == b'\n' && i + 1 < n {
            starts.push(i + 1);
        }
    }
    if starts.len() > 1 && starts.len() <= 60 {
        for w in 0..starts.len() {
            let a = starts[w];
            let b = if w + 1 < starts.len() { starts[w + 1] } else { n };
            let mut v = t[..a].to_vec();
            v.extend_from_slice(&t[b..]);
            out.push(v);
        }
    }
    // single bytes (only for short texts)
    if n <= 120 {
        for i in 0..n {
            let mut v = t[..i].to_vec();
            v.extend_from_slice(&t[i + 1..]);
            out.push(v);
        }
    }
    out.retain(|v| v.len() < n);
    out
}

/// Candidates smaller than `spec`, most aggressive first.
pub fn shrink_job(spec: &JobSpec) -> Vec<JobSpec> {
    let mut out = vec![];
    // drop faults
    if spec.faults.len() > 1 {
        for i in 0..spec.faults.len() {
            let mut s = spec.clone();
            s.faults.remove(i);
            out.push(s);
        }
    }
    // drop files other than the entry
    let entry_path = match &spec.entry {
        Entry::Path(p) => Some(p.clone()),
        _ => None,
    };
    for i in 0..spec.files.len() {
        if Some(&spec.files[i].0) == entry_path.as_ref() {
            continue;
        }
        let mut s = spec.clone();
        s.files.remove(i);
        out.push(s);
    }
    // bake content faults into the file so that the text itself can shrink
    for (fi, f) in spec.faults.iter().enumerate() {
        if let Fault::Content { path, what } = f {
            if let Some(idx) = spec.files.iter().position(|(p, _)| p == path) {
                // keep torn faults as torn faults but prefer a shorter tear
                if let ContentFault::Torn(n) = what {
                    if *n > 0 {
                        for m in [0usize, n / 2, n - 1] {
                            if m < *n {
                                let mut s = spec.clone();
                                s.faults[fi] = Fault::Content { path: path.clone(), what: ContentFault::Torn(m) };
                                out.push(s);
                            }
                        }
                    }
                    // drop the part of the file behind the tear: it is never delivered
                    if *n < spec.files[idx].1.len() {
                        let mut s = spec.clone();
                        s.files[idx].1.truncate(*n);
                        out.push(s);
                    }
                } else {
                    let mut s = spec.clone();
                    s.files[idx].1 = apply_content_fault(&spec.files[idx].1, what);
                    // keep one (now no-op) marker fault so that the case still counts as "corrupted text"
                    s.faults[fi] = Fault::Content { path: path.clone(), what: ContentFault::Replace(s.files[idx].1.clone()) };
                    if s != *spec {
                        out.push(s);
                    }
                }
            }
        }
    }
    // move index-based faults earlier is meaningless (the index names an operation); skip.
    // shrink file texts
    for i in 0..spec.files.len() {
        for t in text_candidates(&spec.files[i].1) {
            let mut s = spec.clone();
            s.files[i].1 = t.clone();
            // keep a Replace marker in sync
            for f in s.faults.iter_mut() {
                if let Fault::Content { path, what: ContentFault::Replace(b) } = f {
                    if *path == spec.files[i].0 {
                        *b = t.clone();
                    }
                }
            }
            out.push(s);
        }
    }
    if let Entry::Text(t) = &spec.entry {
        for c in text_candidates(t.as_bytes()) {
            if let Ok(st) = String::from_utf8(c) {
                let mut s = spec.clone();
                s.entry = Entry::Text(st);
                out.push(s);
            }
        }
    }
    // simplify options
    if spec.compressed {
        let mut s = spec.clone();
        s.compressed = false;
        out.push(s);
    }
    if spec.quiet {
        let mut s = spec.clone();
        s.quiet = false;
        out.push(s);
    }
    if !spec.unicode {
        let mut s = spec.clone();
        s.unicode = true;
        out.push(s);
    }
    if !spec.charset {
        let mut s = spec.clone();
        s.charset = true;
        out.push(s);
    }
    if !spec.load_paths.is_empty() {
        for i in 0..spec.load_paths.len() {
            let mut s = spec.clone();
            s.load_paths.remove(i);
            out.push(s);
        }
    }
    if !spec.extra_dirs.is_empty() {
        let mut s = spec.clone();
        s.extra_dirs.clear();
        out.push(s);
    }
    out
}
