//! Process-level seams defined *in the simulator executable*:
//!
//! * `getrandom`: std's `RandomState` keys (one call per OS thread) and the
//!   `getrandom` crate behind `rand::thread_rng` take their bytes from here, so
//!   hash iteration order and `random()`/`unique-id()` entropy are a function
//!   of the run. Threads that did not ask for simulated entropy get the kernel's.
//! * real-disk monitor: `open*`, `stat*`, `statx`, `access`, `readlink`,
//!   `realpath`, `getcwd`, `opendir` forward to the kernel, and record a
//!   **confinement breach** when they are reached from a thread that is inside
//!   a simulated compilation that was given a custom Fs.
//!
//! The executable is linked with --export-dynamic so that std's weak (dlsym)
//! lookups of `getrandom` and `statx` find these definitions.

#![allow(clippy::missing_safety_doc)]

use std::cell::{Cell, RefCell};
use std::ffi::CStr;

use libc::{c_char, c_int, c_long, c_uint, c_void, size_t, ssize_t};

thread_local! {
    /// Some(state) = simulated entropy for this thread
    static ENTROPY: Cell<Option<u64>> = const { Cell::new(None) };
    static ENTROPY_CALLS: Cell<u64> = const { Cell::new(0) };
    /// true while this thread runs a compilation that must not touch the real disk
    static CONFINED: Cell<bool> = const { Cell::new(false) };
    static BREACHES: RefCell<Vec<String>> = const { RefCell::new(Vec::new()) };
    static IN_MONITOR: Cell<bool> = const { Cell::new(false) };
    /// Some(ns since the epoch) = this thread is inside a simulated compilation: every clock
    /// read is answered from here (and advances it), and is counted
    static SIM_CLOCK: Cell<Option<u64>> = const { Cell::new(None) };
    static CLOCK_READS: Cell<u64> = const { Cell::new(0) };
    /// the simulated date at which the compilations of this thread take place (seconds)
    static EPOCH: Cell<u64> = const { Cell::new(DEFAULT_EPOCH) };
}

/// 2020-09-13T12:26:40Z: the date of every compilation that is not told otherwise
pub const DEFAULT_EPOCH: u64 = 1_600_000_000;

/// The simulated date (seconds since 1970) of the compilations this thread runs from now on.
pub fn set_epoch(secs: u64) {
    EPOCH.with(|e| e.set(secs));
}

/// Enter / leave a simulated compilation: inside, `clock_gettime`, `gettimeofday` and `time`
/// read the simulated clock.
pub fn set_sim_clock(on: bool) {
    let v = if on { Some(EPOCH.with(Cell::get).saturating_mul(1_000_000_000)) } else { None };
    SIM_CLOCK.with(|c| c.set(v));
}

/// clock reads made on this thread while a simulated clock was installed (cumulative)
pub fn clock_reads() -> u64 {
    CLOCK_READS.with(Cell::get)
}

/// Some(now) on a thread that is inside a simulated compilation; every read moves the clock on
/// by a little over a millisecond.
fn sim_now() -> Option<u64> {
    let t = SIM_CLOCK.try_with(Cell::get).ok().flatten()?;
    let _ = SIM_CLOCK.try_with(|c| c.set(Some(t + 1_000_003)));
    let _ = CLOCK_READS.try_with(|c| c.set(c.get() + 1));
    Some(t)
}

/// Give this thread a simulated entropy stream (call before the thread creates
/// its first HashMap). `None` switches back to the kernel.
pub fn set_thread_entropy(state: Option<u64>) {
    ENTROPY.with(|e| e.set(state));
}

pub fn entropy_calls() -> u64 {
    ENTROPY_CALLS.with(Cell::get)
}

pub fn set_confined(on: bool) {
    CONFINED.with(|c| c.set(on));
}

pub fn take_breaches() -> Vec<String> {
    BREACHES.with(|b| std::mem::take(&mut *b.borrow_mut()))
}

#[no_mangle]
pub unsafe extern "C" fn getrandom(buf: *mut c_void, buflen: size_t, flags: c_uint) -> ssize_t {
    let st = ENTROPY.try_with(Cell::get).ok().flatten();
    match st {
        None => raw_syscall6(libc::SYS_getrandom, buf as usize, buflen, flags as usize, 0, 0, 0) as ssize_t,
        Some(mut s) => {
            let _ = ENTROPY_CALLS.try_with(|c| c.set(c.get() + 1));
            let p = buf as *mut u8;
            let mut i = 0;
            while i < buflen {
                let v = crate::prng::splitmix(&mut s).to_le_bytes();
                let n = (buflen - i).min(8);
                std::ptr::copy_nonoverlapping(v.as_ptr(), p.add(i), n);
                i += n;
            }
            let _ = ENTROPY.try_with(|e| e.set(Some(s)));
            buflen as ssize_t
        }
    }
}

unsafe fn note(call: &str, path: *const c_char) {
    let confined = CONFINED.try_with(Cell::get).unwrap_or(false);
    if !confined {
        return;
    }
    // the recorder itself allocates; never recurse
    if IN_MONITOR.try_with(|m| m.replace(true)).unwrap_or(true) {
        return;
    }
    let p = if path.is_null() { "<null>".to_string() } else { CStr::from_ptr(path).to_string_lossy().into_owned() };
    let _ = BREACHES.try_with(|b| b.borrow_mut().push(format!("{}({})", call, p)));
    let _ = IN_MONITOR.try_with(|m| m.set(false));
}

#[no_mangle]
pub unsafe extern "C" fn open(path: *const c_char, flags: c_int, mode: c_uint) -> c_int {
    note("open", path);
    libc::syscall(libc::SYS_openat, libc::AT_FDCWD, path, flags, mode) as c_int
}

#[no_mangle]
pub unsafe extern "C" fn open64(path: *const c_char, flags: c_int, mode: c_uint) -> c_int {
    note("open64", path);
    libc::syscall(libc::SYS_openat, libc::AT_FDCWD, path, flags | libc::O_LARGEFILE, mode) as c_int
}

#[no_mangle]
pub unsafe extern "C" fn openat(dirfd: c_int, path: *const c_char, flags: c_int, mode: c_uint) -> c_int {
    note("openat", path);
    libc::syscall(libc::SYS_openat, dirfd, path, flags, mode) as c_int
}

#[no_mangle]
pub unsafe extern "C" fn openat64(dirfd: c_int, path: *const c_char, flags: c_int, mode: c_uint) -> c_int {
    note("openat64", path);
    libc::syscall(libc::SYS_openat, dirfd, path, flags | libc::O_LARGEFILE, mode) as c_int
}

#[no_mangle]
pub unsafe extern "C" fn stat(path: *const c_char, buf: *mut libc::stat) -> c_int {
    note("stat", path);
    libc::syscall(libc::SYS_newfstatat, libc::AT_FDCWD, path, buf, 0) as c_int
}

#[no_mangle]
pub unsafe extern "C" fn stat64(path: *const c_char, buf: *mut libc::stat64) -> c_int {
    note("stat64", path);
    libc::syscall(libc::SYS_newfstatat, libc::AT_FDCWD, path, buf, 0) as c_int
}

#[no_mangle]
pub unsafe extern "C" fn lstat(path: *const c_char, buf: *mut libc::stat) -> c_int {
    note("lstat", path);
    libc::syscall(libc::SYS_newfstatat, libc::AT_FDCWD, path, buf, libc::AT_SYMLINK_NOFOLLOW) as c_int
}

#[no_mangle]
pub unsafe extern "C" fn lstat64(path: *const c_char, buf: *mut libc::stat64) -> c_int {
    note("lstat64", path);
    libc::syscall(libc::SYS_newfstatat, libc::AT_FDCWD, path, buf, libc::AT_SYMLINK_NOFOLLOW) as c_int
}

#[no_mangle]
pub unsafe extern "C" fn fstatat(dirfd: c_int, path: *const c_char, buf: *mut libc::stat, flags: c_int) -> c_int {
    note("fstatat", path);
    libc::syscall(libc::SYS_newfstatat, dirfd, path, buf, flags) as c_int
}

#[no_mangle]
pub unsafe extern "C" fn fstatat64(dirfd: c_int, path: *const c_char, buf: *mut libc::stat64, flags: c_int) -> c_int {
    note("fstatat64", path);
    libc::syscall(libc::SYS_newfstatat, dirfd, path, buf, flags) as c_int
}

#[no_mangle]
pub unsafe extern "C" fn statx(dirfd: c_int, path: *const c_char, flags: c_int, mask: c_uint, buf: *mut c_void) -> c_int {
    // std calls statx(0, NULL, 0, 0, NULL) once to probe for availability
    if !path.is_null() && !(flags & libc::AT_EMPTY_PATH != 0 && *path == 0) {
        note("statx", path);
    }
    libc::syscall(libc::SYS_statx, dirfd, path, flags, mask, buf) as c_int
}

#[no_mangle]
pub unsafe extern "C" fn access(path: *const c_char, mode: c_int) -> c_int {
    note("access", path);
    libc::syscall(libc::SYS_faccessat, libc::AT_FDCWD, path, mode) as c_int
}

#[no_mangle]
pub unsafe extern "C" fn faccessat(dirfd: c_int, path: *const c_char, mode: c_int, flags: c_int) -> c_int {
    note("faccessat", path);
    libc::syscall(libc::SYS_faccessat2, dirfd, path, mode, flags) as c_int
}

#[no_mangle]
pub unsafe extern "C" fn readlink(path: *const c_char, buf: *mut c_char, sz: size_t) -> ssize_t {
    note("readlink", path);
    libc::syscall(libc::SYS_readlinkat, libc::AT_FDCWD, path, buf, sz) as ssize_t
}

#[no_mangle]
pub unsafe extern "C" fn getcwd(buf: *mut c_char, sz: size_t) -> *mut c_char {
    note("getcwd", std::ptr::null());
    let r = libc::syscall(libc::SYS_getcwd, buf, sz) as c_long;
    if r < 0 {
        std::ptr::null_mut()
    } else {
        buf
    }
}

extern "C" {
    // glibc's own implementations, reachable under their internal aliases
    fn __realpath_chk(path: *const c_char, resolved: *mut c_char, len: size_t) -> *mut c_char;
}

#[no_mangle]
pub unsafe extern "C" fn realpath(path: *const c_char, resolved: *mut c_char) -> *mut c_char {
    note("realpath", path);
    if resolved.is_null() {
        // allocate as realpath(path, NULL) would
        let buf = libc::malloc(libc::PATH_MAX as usize) as *mut c_char;
        if buf.is_null() {
            return buf;
        }
        let r = __realpath_chk(path, buf, libc::PATH_MAX as usize);
        if r.is_null() {
            libc::free(buf as *mut c_void);
        }
        r
    } else {
        __realpath_chk(path, resolved, libc::PATH_MAX as usize)
    }
}

#[no_mangle]
pub unsafe extern "C" fn opendir(path: *const c_char) -> *mut c_void {
    note("opendir", path);
    type F = unsafe extern "C" fn(*const c_char) -> *mut c_void;
    let sym = libc::dlsym(libc::RTLD_NEXT, b"opendir\0".as_ptr() as *const c_char);
    if sym.is_null() {
        return std::ptr::null_mut();
    }
    let f: F = std::mem::transmute(sym);
    f(path)
}

/// Self-test of the two seams; returns a list of failures.
pub fn selftest() -> Vec<String> {
    use std::collections::HashSet;
    let mut fails = vec![];
    let order = |key: Option<u64>| -> Vec<u32> {
        std::thread::spawn(move || {
            set_thread_entropy(key);
            let s: HashSet<u32> = (0..64).collect();
            s.into_iter().collect::<Vec<u32>>()
        })
        .join()
        .unwrap()
    };
    let a = order(Some(1));
    let b = order(Some(1));
    let c = order(Some(2));
    if a != b {
        fails.push("same simulated entropy gave different HashSet orders".into());
    }
    if a == c {
        fails.push("different simulated entropy gave the same HashSet order".into());
    }
    let br = std::thread::spawn(|| {
        set_confined(true);
        let _ = std::path::Path::new("/etc/hostname").is_file();
        let _ = std::fs::read("/etc/hostname");
        let _ = std::fs::canonicalize("/etc/../etc/hostname");
        let _ = std::env::current_dir();
        let _ = std::path::Path::new("/etc").is_dir();
        set_confined(false);
        take_breaches()
    })
    .join()
    .unwrap();
    for want in ["statx", "open", "realpath", "getcwd"] {
        if !br.iter().any(|b| b.starts_with(want)) {
            fails.push(format!("real-disk monitor missed {} (saw {:?})", want, br));
        }
    }
    // the clock seam: inside a simulated compilation both std clocks read the simulated date
    let clk = std::thread::spawn(|| {
        set_epoch(1_234_567_890);
        let before = clock_reads();
        set_sim_clock(true);
        let st = std::time::SystemTime::now().duration_since(std::time::UNIX_EPOCH).map(|d| d.as_secs()).unwrap_or(0);
        let i1 = std::time::Instant::now();
        let i2 = std::time::Instant::now();
        set_sim_clock(false);
        let real = std::time::SystemTime::now().duration_since(std::time::UNIX_EPOCH).map(|d| d.as_secs()).unwrap_or(0);
        (st, i2.duration_since(i1).as_nanos(), clock_reads() - before, real)
    })
    .join()
    .unwrap();
    if clk.0 != 1_234_567_890 || clk.1 != 1_000_003 || clk.2 != 3 {
        fails.push(format!("clock seam: SystemTime={} (want 1234567890), Instant step={} ns (want 1000003), reads={} (want 3)", clk.0, clk.1, clk.2));
    }
    if clk.3 < 1_700_000_000 {
        fails.push(format!("clock seam still active outside a simulated compilation: {}", clk.3));
    }
    // rand::thread_rng through the getrandom crate: exercised via unique-id()
    let uid = |key: u64| -> String {
        std::thread::spawn(move || {
            set_thread_entropy(Some(key));
            grass_compiler::from_string("a{b:unique-id()}".to_string(), &grass_compiler::Options::default()).unwrap_or_default()
        })
        .join()
        .unwrap()
    };
    let (u1, u2, u3) = (uid(5), uid(5), uid(6));
    if u1 != u2 {
        fails.push(format!("unique-id() not a function of the simulated entropy: {:?} vs {:?}", u1, u2));
    }
    if u1 == u3 {
        fails.push(format!("unique-id() ignores the simulated entropy: {:?}", u1));
    }
    fails
}

/// Raw system call (the libc `syscall` symbol is ours, see below).
#[inline]
unsafe fn raw_syscall6(n: c_long, a1: usize, a2: usize, a3: usize, a4: usize, a5: usize, a6: usize) -> c_long {
    let ret: isize;
    core::arch::asm!(
        "syscall",
        inlateout("rax") n as isize => ret,
        in("rdi") a1, in("rsi") a2, in("rdx") a3, in("r10") a4, in("r8") a5, in("r9") a6,
        lateout("rcx") _, lateout("r11") _,
        options(nostack)
    );
    if (-4095..0).contains(&ret) {
        *libc::__errno_location() = (-ret) as c_int;
        -1
    } else {
        ret as c_long
    }
}

/// The `getrandom` crate (behind `rand::thread_rng`) calls
/// `libc::syscall(SYS_getrandom, ..)`; route that one number through the
/// entropy seam and forward everything else unchanged.
#[no_mangle]
pub unsafe extern "C" fn syscall(n: c_long, a1: usize, a2: usize, a3: usize, a4: usize, a5: usize, a6: usize) -> c_long {
    if n == libc::SYS_getrandom && ENTROPY.try_with(Cell::get).ok().flatten().is_some() {
        return getrandom(a1 as *mut c_void, a2, a3 as c_uint) as c_long;
    }
    raw_syscall6(n, a1, a2, a3, a4, a5, a6)
}

// ---------------------------------------------------------------- clocks
//
// `std::time::Instant::now()` / `SystemTime::now()` reach libc's `clock_gettime`; C code and
// older crates use `gettimeofday` / `time`. Inside a simulated compilation all of them read the
// simulated clock of the thread, whose date the engine chooses (the reference of a job and the
// observed run of the same job take place on different days); elsewhere they are the kernel's.

#[no_mangle]
pub unsafe extern "C" fn clock_gettime(clk: libc::clockid_t, ts: *mut libc::timespec) -> c_int {
    if let Some(t) = sim_now() {
        if !ts.is_null() {
            (*ts).tv_sec = (t / 1_000_000_000) as libc::time_t;
            (*ts).tv_nsec = (t % 1_000_000_000) as c_long;
        }
        return 0;
    }
    raw_syscall6(libc::SYS_clock_gettime, clk as usize, ts as usize, 0, 0, 0, 0) as c_int
}

#[no_mangle]
pub unsafe extern "C" fn gettimeofday(tv: *mut libc::timeval, tz: *mut c_void) -> c_int {
    if let Some(t) = sim_now() {
        if !tv.is_null() {
            (*tv).tv_sec = (t / 1_000_000_000) as libc::time_t;
            (*tv).tv_usec = ((t % 1_000_000_000) / 1000) as libc::suseconds_t;
        }
        return 0;
    }
    raw_syscall6(libc::SYS_gettimeofday, tv as usize, tz as usize, 0, 0, 0, 0) as c_int
}

#[no_mangle]
pub unsafe extern "C" fn time(tloc: *mut libc::time_t) -> libc::time_t {
    let secs = match sim_now() {
        Some(t) => (t / 1_000_000_000) as libc::time_t,
        None => {
            let mut ts: libc::timespec = std::mem::zeroed();
            raw_syscall6(libc::SYS_clock_gettime, libc::CLOCK_REALTIME as usize, &mut ts as *mut _ as usize, 0, 0, 0, 0);
            ts.tv_sec
        }
    };
    if !tloc.is_null() {
        *tloc = secs;
    }
    secs
}

// ---------------------------------------------------------------- yields and sleeps
//
// `std::thread::yield_now()` and `std::thread::sleep()` reach libc's `sched_yield` and
// `nanosleep`/`clock_nanosleep`. On a simulated thread they are scheduling points (a sleep
// advances only the simulated clock); elsewhere they behave as usual.

#[no_mangle]
pub unsafe extern "C" fn sched_yield() -> c_int {
    if crate::sched::current_tid() != usize::MAX {
        crate::sched::point(crate::sched::PointKind::Yield, 0);
        return 0;
    }
    raw_syscall6(libc::SYS_sched_yield, 0, 0, 0, 0, 0, 0) as c_int
}

#[no_mangle]
pub unsafe extern "C" fn nanosleep(req: *const libc::timespec, rem: *mut libc::timespec) -> c_int {
    if crate::sched::current_tid() != usize::MAX && !req.is_null() {
        let ns = ((*req).tv_sec as u64).saturating_mul(1_000_000_000).saturating_add((*req).tv_nsec as u64);
        crate::sched::point(crate::sched::PointKind::Yield, ns / 1000 + 1);
        return 0;
    }
    raw_syscall6(libc::SYS_nanosleep, req as usize, rem as usize, 0, 0, 0, 0) as c_int
}

#[no_mangle]
pub unsafe extern "C" fn clock_nanosleep(clock: libc::clockid_t, flags: c_int, req: *const libc::timespec, rem: *mut libc::timespec) -> c_int {
    if crate::sched::current_tid() != usize::MAX && !req.is_null() && flags == 0 {
        let ns = ((*req).tv_sec as u64).saturating_mul(1_000_000_000).saturating_add((*req).tv_nsec as u64);
        crate::sched::point(crate::sched::PointKind::Yield, ns / 1000 + 1);
        return 0;
    }
    // clock_nanosleep returns the error number directly
    let r = raw_syscall6(libc::SYS_clock_nanosleep, clock as usize, flags as usize, req as usize, rem as usize, 0, 0);
    if r < 0 {
        *libc::__errno_location()
    } else {
        0
    }
}
