//! Project generator: an entry file plus files reached through @import, @use,
//! @forward and meta.load-css, in all three syntaxes, bodies from the corpus.

use crate::case::{CanonMode, Entry, JobSpec};
use crate::corpus::CorpusItem;
use crate::prng::Rng;

pub struct Pools {
    pub scss_ok: Vec<usize>,
    pub scss_any: Vec<usize>,
    pub sass: Vec<usize>,
    pub css_out: Vec<usize>,
}

impl Pools {
    pub fn new(corpus: &[CorpusItem], allow_random: bool) -> Pools {
        let mut p = Pools { scss_ok: vec![], scss_any: vec![], sass: vec![], css_out: vec![] };
        for (i, c) in corpus.iter().enumerate() {
            if !allow_random && c.uses_random() {
                continue;
            }
            if c.input.len() > 4096 {
                continue;
            }
            match c.native_syntax() {
                "sass" => p.sass.push(i),
                "css" => {}
                _ => {
                    p.scss_any.push(i);
                    if !c.is_error && c.default_opts() {
                        p.scss_ok.push(i);
                    }
                }
            }
            if !c.is_error {
                if let Some(e) = &c.expected {
                    if !e.is_empty() && e.len() < 4096 {
                        p.css_out.push(i);
                    }
                }
            }
        }
        p
    }
}

fn body_for(rng: &mut Rng, corpus: &[CorpusItem], pools: &Pools, ext: &str, loader: bool) -> String {
    // a file that must go on loading other files gets a body in its own syntax
    // (so that the chain is reached); leaves get any text under any extension.
    let native = loader || rng.chance(0.6);
    if native {
        match ext {
            "sass" => {
                if !pools.sass.is_empty() && rng.chance(0.8) {
                    corpus[*rng.pick(&pools.sass)].input.clone()
                } else {
                    "a\n  b: c\n".to_string()
                }
            }
            "css" => {
                if !pools.css_out.is_empty() {
                    corpus[*rng.pick(&pools.css_out)].expected.clone().unwrap()
                } else {
                    "a{b:c}".to_string()
                }
            }
            _ => {
                if loader || rng.chance(0.8) {
                    corpus[*rng.pick(&pools.scss_ok)].input.clone()
                } else {
                    corpus[*rng.pick(&pools.scss_any)].input.clone()
                }
            }
        }
    } else {
        let all = [&pools.scss_any, &pools.sass, &pools.css_out];
        let pool = all[rng.usize_below(3)];
        if pool.is_empty() {
            return "a{b:c}".into();
        }
        let it = &corpus[*rng.pick(pool)];
        if std::ptr::eq(pool, &pools.css_out) {
            it.expected.clone().unwrap()
        } else {
            it.input.clone()
        }
    }
}

#[derive(Clone, Copy, PartialEq, Debug)]
enum Load {
    Import,
    Use,
    Forward,
    LoadCss,
}

struct Node {
    /// path relative to the project root, e.g. "sub/_d1.scss"
    path: String,
    /// URL by which others load it, relative to the root, e.g. "sub/d1"
    url: String,
    ext: &'static str,
    loads: Vec<(usize, Load)>,
    body: String,
    /// how the @import rules of this file are written: 0 = at the top level; otherwise the
    /// same file is imported inside style rules / @media, once or twice, at growing depth
    nest: u8,
    /// targets this file loads with a configuration (`@use … with (…)`, `@forward … with (…)`)
    configured: Vec<usize>,
    /// `$cfg-<i>: 0 !default` declarations at the top of this file (it is somebody's configured target)
    defaults: Vec<usize>,
    /// a variable declared before the load directives (module configuration through `@import`
    /// looks at the variables in scope)
    top_var: bool,
}

fn render(node: &Node, nodes: &[Node], dir_of_loader: &str) -> String {
    // URLs are relative to the loader's directory; everything lives under the
    // root or one "sub" level, so compute a relative URL by hand
    let rel = |url: &str| -> String {
        if dir_of_loader.is_empty() {
            url.to_string()
        } else {
            format!("../{}", url)
        }
    };
    let sass = node.ext == "sass";
    let semi = if sass { "" } else { ";" };
    let mut s = String::new();
    let needs_meta = node.loads.iter().any(|(_, l)| *l == Load::LoadCss);
    if node.top_var {
        s.push_str(&format!("$in-scope-before-loads: 1{}\n", semi));
    }
    if needs_meta {
        s.push_str(&format!("@use \"sass:meta\"{}\n", semi));
    }
    for (i, l) in &node.loads {
        let with = if node.configured.contains(i) { format!(" with ($cfg-{}: 1)", i) } else { String::new() };
        match l {
            Load::Use => s.push_str(&format!("@use \"{}\" as m{}{}{}\n", rel(&nodes[*i].url), i, with, semi)),
            Load::Forward => s.push_str(&format!("@forward \"{}\"{}{}\n", rel(&nodes[*i].url), with, semi)),
            _ => {}
        }
    }
    for i in &node.defaults {
        s.push_str(&format!("$cfg-{}: 0 !default{}\n", i, semi));
    }
    for (i, l) in &node.loads {
        if *l == Load::Import {
            let u = rel(&nodes[*i].url);
            // (depths of the first and of the second import; 0 = none)
            let (d1, d2, media) = match node.nest {
                0 => (0usize, 0usize, false),
                1 => (1, 0, false),
                2 => (1, 2, false),
                3 => (2, 3, false),
                4 => (2, 1, false),
                _ => (1, 2, true),
            };
            if d1 == 0 {
                s.push_str(&format!("@import \"{}\"{}\n", u, semi));
                continue;
            }
            for (k, d) in [d1, d2].iter().enumerate() {
                if *d == 0 {
                    continue;
                }
                for lvl in 0..*d {
                    let head = if media && lvl == 0 { "@media screen".to_string() } else { format!(".nw{}-{}-{}", i, k, lvl) };
                    if sass {
                        s.push_str(&format!("{}{}\n", "  ".repeat(lvl), head));
                    } else {
                        s.push_str(&format!("{}{} {{\n", "  ".repeat(lvl), head));
                    }
                }
                s.push_str(&format!("{}@import \"{}\"{}\n", "  ".repeat(*d), u, semi));
                if !sass {
                    for lvl in (0..*d).rev() {
                        s.push_str(&format!("{}}}\n", "  ".repeat(lvl)));
                    }
                }
            }
        }
    }
    s.push_str(&node.body);
    if !node.body.ends_with('\n') {
        s.push('\n');
    }
    for (i, l) in &node.loads {
        if *l == Load::LoadCss {
            s.push_str(&format!("@include meta.load-css(\"{}\"){}\n", rel(&nodes[*i].url), semi));
        }
    }
    s
}

pub struct GenOpts {
    pub max_deps: usize,
    pub allow_random: bool,
}

/// Returns the job and, for information, the number of load edges.
pub fn gen_project(rng: &mut Rng, corpus: &[CorpusItem], pools: &Pools, go: &GenOpts) -> JobSpec {
    let ndeps = rng.range(1, go.max_deps as u64) as usize;
    let exts = ["scss", "scss", "scss", "sass", "sass", "css"];
    let entry_ext = *rng.pick(&["scss", "scss", "scss", "sass", "sass"]);
    let mut nodes: Vec<Node> = vec![Node { path: format!("main.{}", entry_ext), url: "main".into(), ext: entry_ext, loads: vec![], body: String::new(), nest: 0, configured: vec![], defaults: vec![], top_var: false }];
    for i in 1..=ndeps {
        let ext = *rng.pick(&exts);
        let sub = rng.chance(0.2);
        let partial = rng.chance(0.3);
        let index = rng.chance(0.1);
        let base = format!("d{}", i);
        let dir = if sub { "sub/" } else { "" };
        let us = if partial { "_" } else { "" };
        let path = if index { format!("{}{}/{}index.{}", dir, base, us, ext) } else { format!("{}{}{}.{}", dir, us, base, ext) };
        let url = if rng.chance(0.15) && !index { format!("{}{}.{}", dir, base, ext) } else { format!("{}{}", dir, base) };
        nodes.push(Node { path, url, ext, loads: vec![], body: String::new(), nest: 0, configured: vec![], defaults: vec![], top_var: false });
    }
    // wire: each dep is loaded by the entry or by an earlier non-css dep
    for i in 1..=ndeps {
        let mut loader = 0;
        if i > 1 && rng.chance(0.35) {
            let cand = rng.range(1, (i - 1) as u64) as usize;
            if nodes[cand].ext != "css" && !nodes[cand].path.contains("index.") {
                loader = cand;
            }
        }
        let kind = *rng.pick(&[Load::Import, Load::Import, Load::Use, Load::Use, Load::Forward, Load::LoadCss]);
        nodes[loader].loads.push((i, kind));
        // a configured load: the target declares the variable with !default
        if matches!(kind, Load::Use | Load::Forward) && nodes[i].ext != "css" && rng.chance(0.25) {
            nodes[loader].configured.push(i);
            nodes[i].defaults.push(i);
        }
        // diamond: a second loader now and then (import only; a module loaded
        // twice through @use is legal as well)
        if i > 1 && loader != 0 && rng.chance(0.2) {
            nodes[0].loads.push((i, *rng.pick(&[Load::Import, Load::Use])));
        }
    }
    for i in 0..nodes.len() {
        if rng.chance(0.25) {
            nodes[i].nest = rng.range(1, 5) as u8;
        }
        nodes[i].top_var = nodes[i].ext != "css" && rng.chance(0.3);
        let loader = !nodes[i].loads.is_empty();
        nodes[i].body = body_for(rng, corpus, pools, nodes[i].ext, loader || i == 0);
    }
    let mut files = vec![];
    for n in &nodes {
        let dir = match n.path.rfind('/') {
            Some(p) => {
                // depth in directories below root (index files count their own directory)
                let d = &n.path[..p];
                if d.starts_with("sub") {
                    "sub"
                } else {
                    ""
                }
            }
            None => "",
        };
        // index files live one directory deeper than their URL: relative URLs
        // written inside them would need another "..". Index nodes never load.
        let text = if n.path.contains("index.") && !n.loads.is_empty() {
            // should not happen often; render relative to the root anyway
            render(n, &nodes, dir)
        } else {
            render(n, &nodes, dir)
        };
        files.push((format!("/w/{}", n.path), text.into_bytes()));
    }
    let mut spec = JobSpec::default();
    spec.files = files;
    spec.cwd = "/w".into();
    spec.entry = Entry::Path(if rng.chance(0.5) { format!("main.{}", entry_ext) } else { format!("/w/main.{}", entry_ext) });
    spec.compressed = rng.chance(0.4);
    spec.quiet = rng.chance(0.3);
    spec.unicode = rng.chance(0.7);
    spec.charset = rng.chance(0.7);
    spec.canon = if rng.chance(0.5) { CanonMode::Identity } else { CanonMode::Absolute };
    if rng.chance(0.3) {
        spec.load_paths.push("/w/sub".into());
    }
    spec
}
