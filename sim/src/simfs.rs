//! SimFs: in-memory `grass_compiler::Fs` with a call recorder and a fault plan.

use std::cell::RefCell;
use std::collections::{BTreeMap, BTreeSet};
use std::io;
use std::path::{Path, PathBuf};

use crate::case::{CanonMode, ContentFault, Fault, IoKind};
use crate::sched;

#[derive(Clone, Debug, PartialEq, Eq)]
pub enum FsOp {
    IsFile,
    IsDir,
    Read,
    Canon,
}

impl FsOp {
    pub fn name(&self) -> &'static str {
        match self {
            FsOp::IsFile => "is_file",
            FsOp::IsDir => "is_dir",
            FsOp::Read => "read",
            FsOp::Canon => "canonicalize",
        }
    }
}

#[derive(Clone, Debug, PartialEq, Eq)]
pub struct FsEvent {
    pub k: usize,
    pub op: FsOp,
    /// path exactly as passed by the caller
    pub path: String,
    /// normalised absolute virtual path
    pub norm: String,
    /// "true"/"false"/"ok:<len>:<hash>"/"err:<kind>"/"ok:<path>"
    pub result: String,
    pub faulted: bool,
}

#[derive(Debug)]
pub struct SimFsInner {
    pub files: BTreeMap<String, Vec<u8>>,
    pub dirs: BTreeSet<String>,
    pub cwd: String,
    pub canon: CanonMode,
    pub faults: Vec<Fault>,
    pub fired: Vec<bool>,
    pub k: usize,
    pub history: Vec<FsEvent>,
    /// what `read` actually delivered, by the path string as passed
    pub delivered: BTreeMap<String, Vec<u8>>,
    pub latency_seed: u64,
    pub persistent_failures: u64,
    pub path_bytes: usize,
}

#[derive(Debug)]
pub struct SimFs {
    pub inner: RefCell<SimFsInner>,
}

pub fn normalize(cwd: &str, p: &str) -> String {
    let full = if p.starts_with('/') { p.to_string() } else { format!("{}/{}", cwd.trim_end_matches('/'), p) };
    let mut parts: Vec<&str> = vec![];
    for seg in full.split('/') {
        match seg {
            "" | "." => {}
            ".." => {
                parts.pop();
            }
            s => parts.push(s),
        }
    }
    format!("/{}", parts.join("/"))
}

pub fn parent_dirs(p: &str) -> Vec<String> {
    let mut out = vec!["/".to_string()];
    let mut cur = String::new();
    let segs: Vec<&str> = p.split('/').filter(|s| !s.is_empty()).collect();
    for s in &segs[..segs.len().saturating_sub(1)] {
        cur.push('/');
        cur.push_str(s);
        out.push(cur.clone());
    }
    out
}

pub fn io_err(kind: IoKind) -> io::Error {
    match kind {
        IoKind::NotFound => io::Error::new(io::ErrorKind::NotFound, "simulated: No such file or directory (os error 2)"),
        IoKind::PermissionDenied => io::Error::new(io::ErrorKind::PermissionDenied, "simulated: Permission denied (os error 13)"),
        IoKind::Interrupted => io::Error::new(io::ErrorKind::Interrupted, "simulated: Interrupted system call (os error 4)"),
        IoKind::InvalidData => io::Error::new(io::ErrorKind::InvalidData, "simulated: stream did not contain valid data"),
        IoKind::Other => io::Error::new(io::ErrorKind::Other, "simulated: Input/output error (os error 5)"),
        IoKind::LongTextA => io::Error::new(io::ErrorKind::TimedOut, "応答がありません。".repeat(40)),
        IoKind::LongTextB => io::Error::new(io::ErrorKind::TimedOut, format!("x{}", "応答がありません。".repeat(40))),
        IoKind::LongTextC => io::Error::new(io::ErrorKind::WouldBlock, format!("xy{}", "応答がありません。".repeat(40))),
        IoKind::EmptyText => io::Error::new(io::ErrorKind::Other, ""),
        IoKind::MultiLineText => io::Error::new(io::ErrorKind::Other, "simulated: upstream said\n  503 Service Unavailable\n\n(retry later)\n"),
    }
}

pub fn apply_content_fault(orig: &[u8], cf: &ContentFault) -> Vec<u8> {
    match cf {
        ContentFault::Torn(n) => orig[..(*n).min(orig.len())].to_vec(),
        ContentFault::Zeroed => vec![0u8; orig.len()],
        ContentFault::ZeroTail(n) => {
            let mut v = orig.to_vec();
            let st = (*n).min(v.len());
            for b in &mut v[st..] {
                *b = 0;
            }
            v
        }
        ContentFault::BitFlip(i, b) => {
            let mut v = orig.to_vec();
            if !v.is_empty() {
                let i = *i % v.len();
                v[i] ^= 1 << (*b % 8);
            }
            v
        }
        ContentFault::SetByte(i, b) => {
            let mut v = orig.to_vec();
            if !v.is_empty() {
                let i = *i % v.len();
                v[i] = *b;
            }
            v
        }
        ContentFault::StaleTail(old) => {
            // a shorter new content written over a longer old one without truncation
            let mut v = orig.to_vec();
            if old.len() > v.len() {
                v.extend_from_slice(&old[v.len()..]);
            }
            v
        }
        ContentFault::Replace(new) => new.clone(),
        ContentFault::Confusable(i) => {
            let mut v = orig.to_vec();
            if let Some(rep) = orig.get(*i).and_then(|c| crate::case::confusable_of(*c)) {
                v.splice(*i..*i + 1, rep.bytes());
            }
            v
        }
    }
}

/// Fs operations one job may make (fault-free jobs of the generators make a few hundred; a job that legitimately needs more ends as `inconclusive`, never as a violation: the verdict is drawn only against a reference that stayed below)
pub const FS_OPS_FUEL: usize = 50_000;
/// ... and the total length of the paths it may ask about (a search that descends without end asks
/// about ever longer paths: this ends it after a few thousand questions instead of 50 000 long ones)
pub const FS_PATH_BYTES_FUEL: usize = 4 << 20;

impl SimFs {
    pub fn new(files: &[(String, Vec<u8>)], extra_dirs: &[String], cwd: &str, canon: CanonMode, faults: Vec<Fault>, latency_seed: u64) -> Self {
        let mut fm = BTreeMap::new();
        let mut dirs = BTreeSet::new();
        dirs.insert("/".to_string());
        for d in parent_dirs(&format!("{}/x", normalize("/", cwd))) {
            dirs.insert(d);
        }
        for (p, b) in files {
            let n = normalize(cwd, p);
            for d in parent_dirs(&n) {
                dirs.insert(d);
            }
            fm.insert(n, b.clone());
        }
        for d in extra_dirs {
            let n = normalize(cwd, d);
            for pd in parent_dirs(&format!("{}/x", n)) {
                dirs.insert(pd);
            }
        }
        let nf = faults.len();
        SimFs {
            inner: RefCell::new(SimFsInner {
                files: fm,
                dirs,
                cwd: cwd.to_string(),
                canon,
                faults,
                fired: vec![false; nf],
                k: 0,
                history: vec![],
                delivered: BTreeMap::new(),
                latency_seed,
    persistent_failures: 0,
                path_bytes: 0,
            }),
        }
    }

    /// Common prologue of every operation: apply tree-changing faults due at
    /// this op index, find an error fault for this op, pass a scheduling point.
    fn begin(&self, op: FsOp, path: &Path) -> (usize, String, String, Option<IoKind>, u64) {
        let mut g = self.inner.borrow_mut();
        let k = g.k;
        g.k += 1;
        g.path_bytes += path.as_os_str().len();
        if k == FS_OPS_FUEL || g.path_bytes > FS_PATH_BYTES_FUEL {
            // a search that keeps asking (e.g. walks name/index/index/... for as long as is_dir says
            // yes): end it deterministically instead of waiting for the stack or the wall clock
            drop(g);
            std::panic::panic_any(grass_compiler::verif::FuelExhausted("fs-ops"));
        }
        let pstr = path.to_string_lossy().into_owned();
        let norm = normalize(&g.cwd, &pstr);
        let mut err = None;
        let mut stall = 0u64;
        for i in 0..g.faults.len() {
            let f = g.faults[i].clone();
            match f {
                Fault::Vanish { at, target } if at == k => {
                    let t = match target {
                        Some(t) => normalize(&g.cwd, &t),
                        None => norm.clone(),
                    };
                    if g.files.remove(&t).is_some() {
                        g.fired[i] = true;
                    }
                }
                Fault::Appear { at, ref path, ref bytes } if at == k => {
                    let t = normalize(&g.cwd, path);
                    for d in parent_dirs(&t) {
                        g.dirs.insert(d);
                    }
                    g.files.insert(t, bytes.clone());
                    g.fired[i] = true;
                }
                Fault::ReadErr { at, kind } if at == k && op == FsOp::Read => {
                    err = Some(kind);
                    g.fired[i] = true;
                }
                Fault::CanonErr { at } if at == k && op == FsOp::Canon => {
                    err = Some(IoKind::NotFound);
                    g.fired[i] = true;
                }
                Fault::Stall { at, latency } if at == k => {
                    stall = latency;
                    g.fired[i] = true;
                }
                Fault::ReadErrAlways { ref path, kind } if op == FsOp::Read && normalize(&g.cwd, path) == norm => {
                    err = Some(kind);
                    g.fired[i] = true;
                    g.persistent_failures += 1;
                    if g.persistent_failures > 10_000 {
                        // the caller keeps retrying a read that fails every time: a retry loop that
                        // never gives up. End it deterministically instead of waiting for the wall clock.
                        drop(g);
                        std::panic::panic_any(grass_compiler::verif::FuelExhausted("fs-retry"));
                    }
                }
                _ => {}
            }
        }
        let lat = if stall > 0 {
            stall
        } else {
            1 + (crate::prng::mix(g.latency_seed, k as u64) % 8)
        };
        (k, pstr, norm, err, lat)
    }

    fn record(&self, k: usize, op: FsOp, path: String, norm: String, result: String, faulted: bool) {
        self.inner.borrow_mut().history.push(FsEvent { k, op, path, norm, result, faulted });
    }

    /// true (and marked as fired) if the job carries a StatLies fault of this mode
    fn lie(&self, mode: &str) -> bool {
        let mut g = self.inner.borrow_mut();
        for i in 0..g.faults.len() {
            if matches!(&g.faults[i], Fault::StatLies { mode: m } if m == mode) {
                g.fired[i] = true;
                return true;
            }
        }
        false
    }

    /// the mode of a CanonOdd fault, if the job carries one (marked as fired)
    fn canon_odd(&self) -> Option<String> {
        let mut g = self.inner.borrow_mut();
        for i in 0..g.faults.len() {
            if let Fault::CanonOdd { mode } = &g.faults[i] {
                let m = mode.clone();
                g.fired[i] = true;
                return Some(m);
            }
        }
        None
    }

    pub fn take_history(&self) -> Vec<FsEvent> {
        std::mem::take(&mut self.inner.borrow_mut().history)
    }
}

impl grass_compiler::Fs for SimFs {
    fn is_dir(&self, path: &Path) -> bool {
        let (k, p, n, _e, lat) = self.begin(FsOp::IsDir, path);
        sched::point(sched::PointKind::Fs, lat);
        let mut r = self.inner.borrow().dirs.contains(&n);
        if !r && self.lie("dir_always") {
            r = true;
        }
        self.record(k, FsOp::IsDir, p, n, r.to_string(), false);
        r
    }

    fn is_file(&self, path: &Path) -> bool {
        let (k, p, n, _e, lat) = self.begin(FsOp::IsFile, path);
        sched::point(sched::PointKind::Fs, lat);
        let mut r = self.inner.borrow().files.contains_key(&n);
        if !r && self.lie("file_always") {
            r = true;
        }
        if !r && self.inner.borrow().dirs.contains(&n) && self.lie("dir_is_file") {
            r = true;
        }
        self.record(k, FsOp::IsFile, p, n, r.to_string(), false);
        r
    }

    fn read(&self, path: &Path) -> io::Result<Vec<u8>> {
        let (k, p, n, e, lat) = self.begin(FsOp::Read, path);
        sched::point(sched::PointKind::Fs, lat);
        if let Some(kind) = e {
            self.record(k, FsOp::Read, p, n, format!("err:{}", kind.name()), true);
            return Err(io_err(kind));
        }
        let mut g = self.inner.borrow_mut();
        let orig = match g.files.get(&n) {
            Some(b) => b.clone(),
            None => {
                drop(g);
                self.record(k, FsOp::Read, p, n, "err:NotFound".into(), false);
                return Err(io_err(IoKind::NotFound));
            }
        };
        let mut bytes = orig.clone();
        let mut faulted = false;
        for i in 0..g.faults.len() {
            if let Fault::Content { path: fp, what } = &g.faults[i] {
                if normalize(&g.cwd, fp) == n {
                    let nb = apply_content_fault(&bytes, what);
                    if nb != bytes {
                        faulted = true;
                    }
                    bytes = nb;
                    g.fired[i] = true;
                }
            }
        }
        g.delivered.insert(p.clone(), bytes.clone());
        drop(g);
        self.record(k, FsOp::Read, p, n, format!("ok:{}:{:x}", bytes.len(), crate::prng::hash_bytes(0, &bytes)), faulted);
        Ok(bytes)
    }

    fn canonicalize(&self, path: &Path) -> io::Result<PathBuf> {
        let (k, p, n, e, lat) = self.begin(FsOp::Canon, path);
        sched::point(sched::PointKind::Fs, lat);
        if let Some(kind) = e {
            self.record(k, FsOp::Canon, p, n, format!("err:{}", kind.name()), true);
            return Err(io_err(kind));
        }
        let g = self.inner.borrow();
        let exists = g.files.contains_key(&n) || g.dirs.contains(&n);
        let res: io::Result<PathBuf> = match &g.canon {
            CanonMode::Identity => Ok(path.to_path_buf()),
            CanonMode::Absolute => {
                if exists {
                    Ok(PathBuf::from(&n))
                } else {
                    Err(io_err(IoKind::NotFound))
                }
            }
            CanonMode::Alias(tbl) => {
                if !exists {
                    Err(io_err(IoKind::NotFound))
                } else {
                    match tbl.iter().find(|(a, _)| *a == n) {
                        Some((_, b)) => Ok(PathBuf::from(b)),
                        None => Ok(PathBuf::from(&n)),
                    }
                }
            }
        };
        drop(g);
        let res = match (res, self.canon_odd()) {
            (Ok(pb), Some(mode)) => {
                use std::os::unix::ffi::{OsStrExt, OsStringExt};
                let b = pb.as_os_str().as_bytes().to_vec();
                Ok(match mode.as_str() {
                    "relative" => PathBuf::from(std::ffi::OsString::from_vec(b.iter().copied().skip_while(|c| *c == b'/').collect())),
                    "empty" => PathBuf::new(),
                    "fresh" => {
                        // an equivalent spelling that is new on every call: k is the op index
                        let mut v = b.clone();
                        let cut = v.iter().rposition(|c| *c == b'/').map(|i| i + 1).unwrap_or(0);
                        let tail = v.split_off(cut);
                        for _ in 0..(k % 7) + 1 {
                            v.extend_from_slice(b"./");
                        }
                        v.extend_from_slice(&tail);
                        PathBuf::from(std::ffi::OsString::from_vec(v))
                    }
                    _ => {
                        let mut v = b.clone();
                        v.push(0xff);
                        PathBuf::from(std::ffi::OsString::from_vec(v))
                    }
                })
            }
            (r, _) => r,
        };
        let rs = match &res {
            Ok(pb) => format!("ok:{}", pb.to_string_lossy()),
            Err(_) => "err:NotFound".to_string(),
        };
        self.record(k, FsOp::Canon, p, n, rs, false);
        res
    }
}
