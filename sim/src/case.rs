//! Explicit, serialisable descriptions of what a simulated job is: files,
//! options, faults. Replay files contain these, never PRNG seeds alone.

use serde_json::{json, Value};

#[derive(Clone, Copy, Debug, PartialEq, Eq)]
pub enum IoKind {
    NotFound,
    PermissionDenied,
    Interrupted,
    InvalidData,
    Other,
    /// errors whose *text* is unusual (a virtual or network file system may put anything there):
    /// several hundred bytes of multi-byte characters, at three alignments so that every byte
    /// offset falls inside a character in one of them; an empty text; a text of several lines
    LongTextA,
    LongTextB,
    LongTextC,
    EmptyText,
    MultiLineText,
}

/// ASCII characters and the look-alikes that editors and chat tools substitute for them
pub fn confusable_of(c: u8) -> Option<&'static str> {
    Some(match c {
        b' ' => "\u{a0}",
        b'-' => "\u{2013}",
        b'"' => "\u{201c}",
        b'\'' => "\u{2019}",
        b'.' => "\u{2026}",
        b'*' => "\u{2217}",
        b'/' => "\u{2215}",
        b':' => "\u{ff1a}",
        b';' => "\u{37e}",
        _ => return None,
    })
}

pub const IO_KINDS: [IoKind; 5] = [IoKind::NotFound, IoKind::PermissionDenied, IoKind::Interrupted, IoKind::InvalidData, IoKind::Other];
pub const IO_TEXT_KINDS: [IoKind; 5] = [IoKind::LongTextA, IoKind::LongTextB, IoKind::LongTextC, IoKind::EmptyText, IoKind::MultiLineText];

impl IoKind {
    pub fn name(&self) -> &'static str {
        match self {
            IoKind::NotFound => "NotFound",
            IoKind::PermissionDenied => "PermissionDenied",
            IoKind::Interrupted => "Interrupted",
            IoKind::InvalidData => "InvalidData",
            IoKind::Other => "Other",
            IoKind::LongTextA => "LongTextA",
            IoKind::LongTextB => "LongTextB",
            IoKind::LongTextC => "LongTextC",
            IoKind::EmptyText => "EmptyText",
            IoKind::MultiLineText => "MultiLineText",
        }
    }
    pub fn parse(s: &str) -> Option<IoKind> {
        IO_KINDS.iter().chain(IO_TEXT_KINDS.iter()).copied().find(|k| k.name() == s)
    }
}

#[derive(Clone, Debug, PartialEq, Eq)]
pub enum ContentFault {
    Torn(usize),
    Zeroed,
    ZeroTail(usize),
    BitFlip(usize, u8),
    SetByte(usize, u8),
    StaleTail(Vec<u8>),
    Replace(Vec<u8>),
    /// the ASCII character at this byte offset replaced by its typographic look-alike
    /// (no-break space, en dash, curly quotes, …): text that went through a word processor,
    /// a web page or a chat tool on its way to the file
    Confusable(usize),
}

impl ContentFault {
    pub fn kind(&self) -> &'static str {
        match self {
            ContentFault::Torn(_) => "torn",
            ContentFault::Zeroed => "zeroed",
            ContentFault::ZeroTail(_) => "zero_tail",
            ContentFault::BitFlip(..) => "bitflip",
            ContentFault::SetByte(..) => "setbyte",
            ContentFault::StaleTail(_) => "stale_tail",
            ContentFault::Replace(_) => "replace",
            ContentFault::Confusable(_) => "confusable",
        }
    }
}

#[derive(Clone, Debug, PartialEq, Eq)]
pub enum Fault {
    /// the k-th Fs operation of the job, if it is a read, fails
    ReadErr { at: usize, kind: IoKind },
    /// the k-th Fs operation, if it is a canonicalize, fails
    CanonErr { at: usize },
    /// just before the k-th Fs operation the target (default: the path of that operation) is deleted
    Vanish { at: usize, target: Option<String> },
    /// just before the k-th Fs operation a file appears
    Appear { at: usize, path: String, bytes: Vec<u8> },
    /// the contents delivered for `path` are altered
    Content { path: String, what: ContentFault },
    /// the k-th Fs operation takes `latency` units of simulated time
    Stall { at: usize, latency: u64 },
    /// EVERY read of `path` fails (a bad sector, a permission problem: faults that do not go away)
    ReadErrAlways { path: String, kind: IoKind },
    /// the existence tests answer unusually, but legally for an `Fs` that is not a POSIX disk:
    /// "dir_always" (a flat key/value store in which every prefix "is a directory"),
    /// "file_always" (is_file says yes to everything; the read then decides),
    /// "dir_is_file" (is_file also says yes to directories; reading one fails)
    StatLies { mode: String },
    /// `canonicalize` succeeds with an unusual answer: "relative" (leading slash dropped),
    /// "empty", "fresh" (an equivalent but different spelling on every call), "nonutf8"
    CanonOdd { mode: String },
}

impl Fault {
    pub fn kind(&self) -> String {
        match self {
            Fault::ReadErr { kind, .. } => format!("read_err({})", kind.name()),
            Fault::CanonErr { .. } => "canon_err".into(),
            Fault::Vanish { .. } => "vanish".into(),
            Fault::Appear { .. } => "appear".into(),
            Fault::Content { what, .. } => what.kind().into(),
            Fault::Stall { .. } => "stall".into(),
            Fault::ReadErrAlways { kind, .. } => format!("read_err_always({})", kind.name()),
            Fault::StatLies { mode } => format!("stat_lies({})", mode),
            Fault::CanonOdd { mode } => format!("canon_odd({})", mode),
        }
    }
    /// true if the fault alters file *contents* (then evaluation fuel is not a verdict)
    pub fn corrupts_text(&self) -> bool {
        matches!(self, Fault::Content { .. } | Fault::Appear { .. })
    }
}

#[derive(Clone, Debug, PartialEq, Eq)]
pub enum CanonMode {
    Identity,
    Absolute,
    Alias(Vec<(String, String)>),
}

#[derive(Clone, Debug, PartialEq, Eq)]
pub enum Entry {
    Path(String),
    Text(String),
}

#[derive(Clone, Debug, PartialEq, Eq)]
pub struct JobSpec {
    pub label: String,
    pub files: Vec<(String, Vec<u8>)>,
    pub extra_dirs: Vec<String>,
    pub cwd: String,
    pub entry: Entry,
    pub compressed: bool,
    pub quiet: bool,
    pub unicode: bool,
    pub charset: bool,
    pub load_paths: Vec<String>,
    /// "scss" | "sass" | "css"
    pub input_syntax: Option<String>,
    pub canon: CanonMode,
    pub faults: Vec<Fault>,
    /// 0 = no evaluation fuel
    pub eval_fuel: u64,
    /// use NullFs / StdFs instead of SimFs ("sim" default)
    pub fs_kind: String,
    /// 0 = no limit on the nesting depth of user-defined callables
    pub depth_limit: u32,
}

impl Default for JobSpec {
    fn default() -> Self {
        JobSpec {
            label: String::new(),
            files: vec![],
            extra_dirs: vec![],
            cwd: "/w".into(),
            entry: Entry::Text(String::new()),
            compressed: false,
            quiet: false,
            unicode: true,
            charset: true,
            load_paths: vec![],
            input_syntax: None,
            canon: CanonMode::Identity,
            faults: vec![],
            eval_fuel: 10_000_000,
            fs_kind: "sim".into(),
            depth_limit: 0,
        }
    }
}

pub fn bytes_to_json(b: &[u8]) -> Value {
    match std::str::from_utf8(b) {
        Ok(s) => json!({ "utf8": s }),
        Err(_) => json!({ "hex": b.iter().map(|x| format!("{:02x}", x)).collect::<String>() }),
    }
}

pub fn bytes_from_json(v: &Value) -> Option<Vec<u8>> {
    if let Some(s) = v.get("utf8").and_then(|s| s.as_str()) {
        return Some(s.as_bytes().to_vec());
    }
    let h = v.get("hex")?.as_str()?;
    let mut out = vec![];
    let hb = h.as_bytes();
    let mut i = 0;
    while i + 1 < hb.len() {
        out.push(u8::from_str_radix(std::str::from_utf8(&hb[i..i + 2]).ok()?, 16).ok()?);
        i += 2;
    }
    Some(out)
}

impl ContentFault {
    pub fn to_json(&self) -> Value {
        match self {
            ContentFault::Torn(n) => json!({"kind":"torn","n":n}),
            ContentFault::Zeroed => json!({"kind":"zeroed"}),
            ContentFault::ZeroTail(n) => json!({"kind":"zero_tail","n":n}),
            ContentFault::BitFlip(i, b) => json!({"kind":"bitflip","i":i,"bit":b}),
            ContentFault::SetByte(i, b) => json!({"kind":"setbyte","i":i,"byte":b}),
            ContentFault::StaleTail(o) => json!({"kind":"stale_tail","old":bytes_to_json(o)}),
            ContentFault::Replace(o) => json!({"kind":"replace","new":bytes_to_json(o)}),
            ContentFault::Confusable(i) => json!({"kind":"confusable","i":i}),
        }
    }
    pub fn from_json(v: &Value) -> Option<Self> {
        let u = |k: &str| v.get(k).and_then(|x| x.as_u64()).map(|x| x as usize);
        Some(match v.get("kind")?.as_str()? {
            "torn" => ContentFault::Torn(u("n")?),
            "zeroed" => ContentFault::Zeroed,
            "zero_tail" => ContentFault::ZeroTail(u("n")?),
            "bitflip" => ContentFault::BitFlip(u("i")?, u("bit")? as u8),
            "setbyte" => ContentFault::SetByte(u("i")?, u("byte")? as u8),
            "stale_tail" => ContentFault::StaleTail(bytes_from_json(v.get("old")?)?),
            "replace" => ContentFault::Replace(bytes_from_json(v.get("new")?)?),
            "confusable" => ContentFault::Confusable(u("i")?),
            _ => return None,
        })
    }
}

impl Fault {
    pub fn to_json(&self) -> Value {
        match self {
            Fault::ReadErr { at, kind } => json!({"fault":"read_err","at":at,"kind":kind.name()}),
            Fault::CanonErr { at } => json!({"fault":"canon_err","at":at}),
            Fault::Vanish { at, target } => json!({"fault":"vanish","at":at,"target":target}),
            Fault::Appear { at, path, bytes } => json!({"fault":"appear","at":at,"path":path,"bytes":bytes_to_json(bytes)}),
            Fault::Content { path, what } => json!({"fault":"content","path":path,"what":what.to_json()}),
            Fault::Stall { at, latency } => json!({"fault":"stall","at":at,"latency":latency}),
            Fault::ReadErrAlways { path, kind } => json!({"fault":"read_err_always","path":path,"kind":kind.name()}),
            Fault::StatLies { mode } => json!({"fault":"stat_lies","mode":mode}),
            Fault::CanonOdd { mode } => json!({"fault":"canon_odd","mode":mode}),
        }
    }
    pub fn from_json(v: &Value) -> Option<Self> {
        let at = || v.get("at").and_then(|x| x.as_u64()).map(|x| x as usize);
        Some(match v.get("fault")?.as_str()? {
            "read_err" => Fault::ReadErr { at: at()?, kind: IoKind::parse(v.get("kind")?.as_str()?)? },
            "canon_err" => Fault::CanonErr { at: at()? },
            "vanish" => Fault::Vanish { at: at()?, target: v.get("target").and_then(|t| t.as_str()).map(|s| s.to_string()) },
            "appear" => Fault::Appear { at: at()?, path: v.get("path")?.as_str()?.to_string(), bytes: bytes_from_json(v.get("bytes")?)? },
            "content" => Fault::Content { path: v.get("path")?.as_str()?.to_string(), what: ContentFault::from_json(v.get("what")?)? },
            "stall" => Fault::Stall { at: at()?, latency: v.get("latency")?.as_u64()? },
            "read_err_always" => Fault::ReadErrAlways { path: v.get("path")?.as_str()?.to_string(), kind: IoKind::parse(v.get("kind")?.as_str()?)? },
            "stat_lies" => Fault::StatLies { mode: v.get("mode")?.as_str()?.to_string() },
            "canon_odd" => Fault::CanonOdd { mode: v.get("mode")?.as_str()?.to_string() },
            _ => return None,
        })
    }
}

impl JobSpec {
    pub fn to_json(&self) -> Value {
        json!({
            "label": self.label,
            "files": self.files.iter().map(|(p, b)| json!({"path": p, "bytes": bytes_to_json(b)})).collect::<Vec<_>>(),
            "extra_dirs": self.extra_dirs,
            "cwd": self.cwd,
            "entry": match &self.entry { Entry::Path(p) => json!({"path": p}), Entry::Text(t) => json!({"text": t}) },
            "compressed": self.compressed,
            "quiet": self.quiet,
            "unicode": self.unicode,
            "charset": self.charset,
            "load_paths": self.load_paths,
            "input_syntax": self.input_syntax,
            "canon": match &self.canon {
                CanonMode::Identity => json!("identity"),
                CanonMode::Absolute => json!("absolute"),
                CanonMode::Alias(t) => json!({"alias": t.iter().map(|(a, b)| json!([a, b])).collect::<Vec<_>>()}),
            },
            "faults": self.faults.iter().map(|f| f.to_json()).collect::<Vec<_>>(),
            "eval_fuel": self.eval_fuel,
            "fs_kind": self.fs_kind,
            "depth_limit": self.depth_limit,
        })
    }

    pub fn from_json(v: &Value) -> Option<Self> {
        let b = |k: &str, d: bool| v.get(k).and_then(|x| x.as_bool()).unwrap_or(d);
        let strs = |k: &str| -> Vec<String> {
            v.get(k)
                .and_then(|x| x.as_array())
                .map(|a| a.iter().filter_map(|s| s.as_str().map(|s| s.to_string())).collect())
                .unwrap_or_default()
        };
        let mut files = vec![];
        for f in v.get("files").and_then(|x| x.as_array()).cloned().unwrap_or_default() {
            files.push((f.get("path")?.as_str()?.to_string(), bytes_from_json(f.get("bytes")?)?));
        }
        let e = v.get("entry")?;
        let entry = if let Some(p) = e.get("path").and_then(|p| p.as_str()) {
            Entry::Path(p.to_string())
        } else {
            Entry::Text(e.get("text")?.as_str()?.to_string())
        };
        let canon = match v.get("canon") {
            Some(Value::String(s)) if s == "absolute" => CanonMode::Absolute,
            Some(Value::Object(o)) => {
                let mut t = vec![];
                for p in o.get("alias")?.as_array()? {
                    t.push((p.get(0)?.as_str()?.to_string(), p.get(1)?.as_str()?.to_string()));
                }
                CanonMode::Alias(t)
            }
            _ => CanonMode::Identity,
        };
        let mut faults = vec![];
        for f in v.get("faults").and_then(|x| x.as_array()).cloned().unwrap_or_default() {
            faults.push(Fault::from_json(&f)?);
        }
        Some(JobSpec {
            label: v.get("label").and_then(|x| x.as_str()).unwrap_or("").to_string(),
            files,
            extra_dirs: strs("extra_dirs"),
            cwd: v.get("cwd").and_then(|x| x.as_str()).unwrap_or("/w").to_string(),
            entry,
            compressed: b("compressed", false),
            quiet: b("quiet", false),
            unicode: b("unicode", true),
            charset: b("charset", true),
            load_paths: strs("load_paths"),
            input_syntax: v.get("input_syntax").and_then(|x| x.as_str()).map(|s| s.to_string()),
            canon,
            faults,
            eval_fuel: v.get("eval_fuel").and_then(|x| x.as_u64()).unwrap_or(10_000_000),
            fs_kind: v.get("fs_kind").and_then(|x| x.as_str()).unwrap_or("sim").to_string(),
            depth_limit: v.get("depth_limit").and_then(|x| x.as_u64()).unwrap_or(0) as u32,
        })
    }
}
