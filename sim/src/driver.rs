//! Driver: farms units out to worker processes, attributes crashes and hangs,
//! minimises, writes replay files, matches known findings, writes evidence.

use std::collections::{BTreeMap, BTreeSet, HashSet};
use std::io::{BufRead, BufReader, Write};
use std::process::{Child, ChildStdin, Command, Stdio};
use std::sync::atomic::{AtomicU64, Ordering};
use std::sync::mpsc::{channel, Receiver, RecvTimeoutError};
use std::sync::{Arc, Mutex};
use std::time::{Duration, Instant};

use serde_json::{json, Value};

use crate::engine::{Ctx, Engine, UnitResult, Violation};

pub const TOOL_VERSION: &str = "grass-sim 1";

pub struct WorkerProc {
    child: Child,
    stdin: ChildStdin,
    rx: Receiver<String>,
}

#[derive(Debug)]
pub enum Death {
    Signal(i32),
    Exit(i32),
    Timeout,
    Protocol(String),
}

impl Death {
    pub fn class(&self) -> String {
        match self {
            Death::Signal(s) => format!("abort(signal {})", s),
            Death::Exit(c) => format!("abort(exit {})", c),
            Death::Timeout => "hang(wall)".to_string(),
            Death::Protocol(p) => format!("protocol({})", p),
        }
    }
}

impl WorkerProc {
    pub fn spawn(ctx: &Ctx) -> Result<WorkerProc, String> {
        let exe = std::env::current_exe().map_err(|e| e.to_string())?;
        let mut child = Command::new(exe)
            .arg("worker")
            .arg("--seed")
            .arg(ctx.seed.to_string())
            .arg("--tier")
            .arg(&ctx.tier)
            .arg("--repo")
            .arg(&ctx.repo)
            .arg("--target")
            .arg(&ctx.target)
            .stdin(Stdio::piped())
            .stdout(Stdio::piped())
            .stderr(Stdio::null())
            .spawn()
            .map_err(|e| format!("spawn worker: {}", e))?;
        let stdin = child.stdin.take().unwrap();
        let stdout = child.stdout.take().unwrap();
        let (tx, rx) = channel();
        std::thread::spawn(move || {
            let r = BufReader::new(stdout);
            for l in r.lines() {
                match l {
                    Ok(l) => {
                        if tx.send(l).is_err() {
                            break;
                        }
                    }
                    Err(_) => break,
                }
            }
        });
        let mut w = WorkerProc { child, stdin, rx };
        match w.recv(Duration::from_secs(60)) {
            Ok(v) if v.get("ready").is_some() => Ok(w),
            Ok(v) => Err(format!("worker said {} instead of ready", v)),
            Err(d) => Err(format!("worker did not start: {:?}", d)),
        }
    }

    fn recv(&mut self, timeout: Duration) -> Result<Value, Death> {
        match self.rx.recv_timeout(timeout) {
            Ok(l) => serde_json::from_str(&l).map_err(|e| Death::Protocol(format!("{}: {}", e, l.chars().take(200).collect::<String>()))),
            Err(RecvTimeoutError::Timeout) => {
                let _ = self.child.kill();
                let _ = self.child.wait();
                Err(Death::Timeout)
            }
            Err(RecvTimeoutError::Disconnected) => {
                use std::os::unix::process::ExitStatusExt;
                match self.child.wait() {
                    Ok(st) => match st.signal() {
                        Some(s) => Err(Death::Signal(s)),
                        None => Err(Death::Exit(st.code().unwrap_or(-1))),
                    },
                    Err(e) => Err(Death::Protocol(e.to_string())),
                }
            }
        }
    }

    /// Send a request; call `on_at` for progress lines; return the final message.
    pub fn request(&mut self, req: &Value, timeout: Duration, mut on_at: impl FnMut(&Value)) -> Result<Value, Death> {
        let mut line = req.to_string();
        line.push('\n');
        if self.stdin.write_all(line.as_bytes()).is_err() || self.stdin.flush().is_err() {
            return self.recv(Duration::from_secs(5)).and_then(|_| Err(Death::Protocol("write failed".into())));
        }
        loop {
            let v = self.recv(timeout)?;
            if v.get("at").is_some() {
                on_at(&v);
                continue;
            }
            if let Some(e) = v.get("error") {
                return Err(Death::Protocol(e.to_string()));
            }
            return Ok(v);
        }
    }
}

impl Drop for WorkerProc {
    fn drop(&mut self) {
        let _ = writeln!(self.stdin, "{}", json!({"op": "quit"}));
        let _ = self.stdin.flush();
        let _ = self.child.kill();
        let _ = self.child.wait();
    }
}

/// Run units [0, n) once with `workers` worker processes and return unit -> digest.
pub fn digests(eng: Arc<dyn Engine>, ctx: &Ctx, n: u64, workers: usize) -> Result<BTreeMap<u64, u64>, String> {
    let out: Arc<Mutex<BTreeMap<u64, u64>>> = Arc::new(Mutex::new(BTreeMap::new()));
    let err: Arc<Mutex<Option<String>>> = Arc::new(Mutex::new(None));
    let next = Arc::new(AtomicU64::new(0));
    let mut hs = vec![];
    for _ in 0..workers.max(1) {
        let (eng, ctx, out, err, next) = (eng.clone(), ctx.clone(), out.clone(), err.clone(), next.clone());
        hs.push(std::thread::spawn(move || {
            let mut w = match WorkerProc::spawn(&ctx) {
                Ok(w) => w,
                Err(e) => {
                    *err.lock().unwrap() = Some(e);
                    return;
                }
            };
            loop {
                let u = next.fetch_add(1, Ordering::SeqCst);
                if u >= n {
                    break;
                }
                let req = json!({"op": "unit", "engine": eng.name(), "unit": u});
                match w.request(&req, Duration::from_secs(eng.unit_timeout_s()), |_| {}) {
                    Ok(v) => {
                        let d = v.get("result").and_then(UnitResult::from_json).map(|r| r.digest).unwrap_or(0);
                        out.lock().unwrap().insert(u, d);
                    }
                    Err(d) => {
                        *err.lock().unwrap() = Some(format!("unit {}: {:?}", u, d));
                        return;
                    }
                }
            }
        }));
    }
    for h in hs {
        let _ = h.join();
    }
    if let Some(e) = err.lock().unwrap().take() {
        return Err(e);
    }
    let m = out.lock().unwrap().clone();
    Ok(m)
}

#[derive(Default)]
pub struct Merged {
    pub stats: BTreeMap<String, u64>,
    pub violations: Vec<Violation>,
    pub samples: Vec<Value>,
    pub distinct: HashSet<u64>,
    pub sets: BTreeMap<String, HashSet<u64>>,
    pub harness_errors: Vec<String>,
    pub units_done: u64,
}

impl Merged {
    fn merge(&mut self, r: UnitResult) {
        for (k, n) in r.stats {
            *self.stats.entry(k).or_insert(0) += n;
        }
        self.violations.extend(r.violations);
        if self.samples.len() < 12 {
            for s in r.samples {
                if self.samples.len() < 12 {
                    self.samples.push(s);
                }
            }
        }
        self.distinct.extend(r.distinct);
        for (k, v) in r.sets {
            self.sets.entry(k).or_default().extend(v);
        }
        self.units_done += 1;
    }
}

/// Run one unit with crash / hang attribution.
fn run_unit_robust(eng: &dyn Engine, ctx: &Ctx, w: &mut Option<WorkerProc>, unit: u64, merged: &Mutex<Merged>) {
    let ensure = |w: &mut Option<WorkerProc>| -> Result<(), String> {
        if w.is_none() {
            *w = Some(WorkerProc::spawn(ctx)?);
        }
        Ok(())
    };
    if let Err(e) = ensure(w) {
        merged.lock().unwrap().harness_errors.push(e);
        return;
    }
    let req = json!({"op": "unit", "engine": eng.name(), "unit": unit});
    let r = w.as_mut().unwrap().request(&req, Duration::from_secs(eng.unit_timeout_s()), |_| {});
    match r {
        Ok(v) => match v.get("result").and_then(UnitResult::from_json) {
            Some(res) => merged.lock().unwrap().merge(res),
            None => merged.lock().unwrap().harness_errors.push(format!("unit {}: malformed result", unit)),
        },
        Err(Death::Protocol(p)) => {
            *w = None;
            merged.lock().unwrap().harness_errors.push(format!("unit {}: {}", unit, p));
        }
        Err(_first) => {
            // the worker died or timed out: find the case, skipping it on the next attempt
            *w = None;
            let mut skip: Vec<u64> = vec![];
            let mut extra: Vec<Violation> = vec![];
            for _attempt in 0..16 {
                if let Err(e) = ensure(w) {
                    merged.lock().unwrap().harness_errors.push(e);
                    return;
                }
                let mut last: Option<(u64, Value)> = None;
                let req = json!({"op": "unit", "engine": eng.name(), "unit": unit, "careful": true, "skip": skip});
                let r = w.as_mut().unwrap().request(&req, Duration::from_secs(eng.case_timeout_s()), |at| {
                    last = Some((at.get("at").and_then(|a| a.as_u64()).unwrap_or(0), at.get("case").cloned().unwrap_or(Value::Null)));
                });
                match r {
                    Ok(v) => {
                        match v.get("result").and_then(UnitResult::from_json) {
                            Some(mut res) => {
                                res.violations.extend(extra.drain(..));
                                merged.lock().unwrap().merge(res);
                            }
                            None => merged.lock().unwrap().harness_errors.push(format!("unit {}: malformed result", unit)),
                        }
                        return;
                    }
                    Err(Death::Protocol(p)) => {
                        *w = None;
                        merged.lock().unwrap().harness_errors.push(format!("unit {} (careful): {}", unit, p));
                        return;
                    }
                    Err(d) => {
                        *w = None;
                        match last {
                            Some((idx, case)) => {
                                let brief: String = case.to_string().chars().take(700).collect();
                                extra.push(Violation { property: eng.property().to_string(), class: d.class(), detail: format!("worker process {} while running case {} of unit {}: {}", d.class(), idx, unit, brief), case });
                                skip.push(idx);
                            }
                            None => {
                                merged.lock().unwrap().harness_errors.push(format!("unit {}: worker {} before any case", unit, d.class()));
                                return;
                            }
                        }
                    }
                }
            }
            let mut g = merged.lock().unwrap();
            g.violations.extend(extra);
            g.harness_errors.push(format!("unit {}: more than 16 crashing cases, unit abandoned", unit));
        }
    }
}

/// Execute an explicit case in a (possibly fresh) worker and return its violations.
pub fn exec_case(eng: &dyn Engine, ctx: &Ctx, w: &mut Option<WorkerProc>, case: &Value) -> Result<Vec<Violation>, String> {
    exec_case_t(eng, ctx, w, case, eng.case_timeout_s())
}

/// Like `exec_case`, but a wall-clock backstop that fires is not taken at face value: the case
/// is run once more, alone, with ten times the limit. Deterministic verdicts (fuel hooks) then
/// come out as what they are even on a machine that is busy with something else; only a case
/// that really does not finish is still `hang(wall)`. Used wherever a verdict is decided
/// (witnesses of recorded findings, confirmation replays).
pub fn exec_case_patient(eng: &dyn Engine, ctx: &Ctx, w: &mut Option<WorkerProc>, case: &Value) -> Result<Vec<Violation>, String> {
    let r = exec_case(eng, ctx, w, case)?;
    if r.iter().any(|v| v.class.contains("hang(wall)")) {
        *w = None;
        return exec_case_t(eng, ctx, w, case, eng.case_timeout_s() * 10);
    }
    Ok(r)
}

pub fn exec_case_t(eng: &dyn Engine, ctx: &Ctx, w: &mut Option<WorkerProc>, case: &Value, timeout_s: u64) -> Result<Vec<Violation>, String> {
    if w.is_none() {
        *w = Some(WorkerProc::spawn(ctx)?);
    }
    let req = json!({"op": "exec", "engine": eng.name(), "case": case});
    match w.as_mut().unwrap().request(&req, Duration::from_secs(timeout_s), |_| {}) {
        Ok(v) => Ok(v.get("violations").and_then(|a| a.as_array()).map(|a| a.iter().filter_map(Violation::from_json).collect()).unwrap_or_default()),
        Err(Death::Protocol(p)) => {
            *w = None;
            Err(p)
        }
        Err(d) => {
            *w = None;
            let brief: String = case.to_string().chars().take(700).collect();
            Ok(vec![Violation { property: eng.property().to_string(), class: d.class(), detail: format!("worker process {} on case {}", d.class(), brief), case: case.clone() }])
        }
    }
}

fn minimise(eng: &dyn Engine, ctx: &Ctx, v: &Violation, budget: Duration) -> (Violation, u64) {
    let start = Instant::now();
    let mut cur = v.clone();
    let mut w: Option<WorkerProc> = None;
    let mut execs = 0u64;
    'outer: loop {
        if start.elapsed() > budget {
            break;
        }
        for cand in eng.shrink(&cur.case) {
            if start.elapsed() > budget {
                break 'outer;
            }
            execs += 1;
            match exec_case(eng, ctx, &mut w, &cand) {
                Ok(vs) => {
                    if let Some(hit) = vs.into_iter().find(|x| eng.same_class(&x.class, &cur.class)) {
                        cur = Violation { case: cand, ..hit };
                        continue 'outer;
                    }
                }
                Err(_) => {}
            }
        }
        break;
    }
    (cur, execs)
}

pub struct KnownFinding {
    pub property: String,
    pub status: String,
    pub class: String,
    pub what: String,
    pub engine: String,
    /// explicit witness case, re-executed by every run of the engine: a known finding is then
    /// always seen (and reported as KNOWN-FINDING), a fixed one is a permanent regression case
    pub case: Option<Value>,
}

pub fn load_known(path: &str) -> Vec<KnownFinding> {
    let mut out = vec![];
    let txt = match std::fs::read_to_string(path) {
        Ok(t) => t,
        Err(_) => return out,
    };
    let v: Value = match serde_json::from_str(&txt) {
        Ok(v) => v,
        Err(_) => return out,
    };
    for f in v.get("findings").and_then(|f| f.as_array()).cloned().unwrap_or_default() {
        out.push(KnownFinding {
            property: f.get("property").and_then(|s| s.as_str()).unwrap_or("").to_string(),
            status: f.get("status").and_then(|s| s.as_str()).unwrap_or("").to_string(),
            class: f.get("match").and_then(|m| m.get("class")).and_then(|s| s.as_str()).unwrap_or("").to_string(),
            what: f.get("what").and_then(|s| s.as_str()).unwrap_or("").to_string(),
            engine: f.get("engine").and_then(|s| s.as_str()).unwrap_or("").to_string(),
            case: f.get("case").cloned(),
        });
    }
    out
}

fn fnv_hex(s: &str) -> String {
    format!("{:016x}", crate::prng::hash_bytes(0, s.as_bytes()))
}

pub struct RunConfig {
    pub workers: usize,
    pub max_units: Option<u64>,
    pub verif_dir: String,
    pub minimise_budget_s: u64,
    pub time_budget_s: Option<u64>,
    /// committed known_findings.json (never written at run time)
    pub known_path: String,
}

/// Returns the process exit code.
pub fn drive(eng: Box<dyn Engine>, ctx: Ctx, cfg: RunConfig) -> i32 {
    let start = Instant::now();
    let eng: Arc<dyn Engine> = Arc::from(eng);
    let mut units = eng.units(&ctx);
    if let Some(m) = cfg.max_units {
        units = units.min(m);
    }
    println!("[{}] property={} tier={} seed={} units={} workers={} corpus={}", eng.name(), eng.property(), ctx.tier, ctx.seed, units, cfg.workers, ctx.corpus.len());
    let merged = Arc::new(Mutex::new(Merged::default()));
    let next = Arc::new(AtomicU64::new(0));
    let mut handles = vec![];
    let deadline = cfg.time_budget_s.map(|s| start + Duration::from_secs(s));
    for _ in 0..cfg.workers.max(1) {
        let eng = eng.clone();
        let ctx = ctx.clone();
        let merged = merged.clone();
        let next = next.clone();
        handles.push(std::thread::spawn(move || {
            let mut w: Option<WorkerProc> = None;
            loop {
                let u = next.fetch_add(1, Ordering::SeqCst);
                if u >= units {
                    break;
                }
                if let Some(d) = deadline {
                    if Instant::now() > d {
                        break;
                    }
                }
                run_unit_robust(&*eng, &ctx, &mut w, u, &merged);
                if merged.lock().unwrap().harness_errors.len() > 20 {
                    break;
                }
            }
        }));
    }
    for h in handles {
        let _ = h.join();
    }
    // witnesses of recorded findings (known and fixed) for this engine
    let known_for_witness = load_known(&cfg.known_path);
    let mut witnesses_run = 0u64;
    for k in known_for_witness.iter().filter(|k| k.engine == eng.name()) {
        if let Some(case) = &k.case {
            let mut w = None;
            match exec_case_patient(&*eng, &ctx, &mut w, case) {
                Ok(vs) => {
                    witnesses_run += 1;
                    merged.lock().unwrap().violations.extend(vs);
                }
                Err(e) => merged.lock().unwrap().harness_errors.push(format!("witness of {:?}: {}", k.class, e)),
            }
        }
    }
    let explore_s = start.elapsed().as_secs_f64();
    let _ = std::fs::remove_dir_all(format!("{}/scratch/{}", ctx.target, eng.name()));
    let mut m = std::mem::take(&mut *merged.lock().unwrap());

    // ---- group violations by class, keep the smallest case of each
    let mut by_class: BTreeMap<(String, String), (Violation, u64)> = BTreeMap::new();
    for v in m.violations.drain(..) {
        let key = (v.property.clone(), v.class.clone());
        let size = v.case.to_string().len();
        match by_class.get_mut(&key) {
            Some((best, n)) => {
                *n += 1;
                if size < best.case.to_string().len() {
                    *best = v;
                }
            }
            None => {
                by_class.insert(key, (v, 1));
            }
        }
    }

    let known = load_known(&cfg.known_path);
    let replay_dir = format!("{}/replays", cfg.verif_dir);
    let mut exit = 0;
    let mut n_viol = 0u64;
    let mut n_known = 0u64;
    let mut reported = vec![];
    let mut transient: Vec<String> = vec![];
    let n_classes = by_class.len();
    for ((prop, class), (v, count)) in by_class {
        let budget = Duration::from_secs((cfg.minimise_budget_s / n_classes.max(1) as u64).clamp(5, cfg.minimise_budget_s.max(5)));
        let (minv, execs) = minimise(&*eng, &ctx, &v, budget);
        // confirm in a fresh worker process
        let mut w = None;
        let confirmed = match exec_case_patient(&*eng, &ctx, &mut w, &minv.case) {
            Ok(vs) => vs.into_iter().find(|x| eng.same_class(&x.class, &class)),
            Err(e) => {
                m.harness_errors.push(format!("replay of {} failed: {}", class, e));
                None
            }
        };
        drop(w);
        let confirmed = match confirmed {
            Some(c) => c,
            None => {
                if class.contains("hang(wall)") || class.contains("cli-hang") {
                    // a wall-clock backstop that fired once and not again in a fresh process is
                    // machine load, never a verdict (wall-clock limits are backstops only)
                    transient.push(format!("{} ({} hits) did not reproduce: attributed to machine load", class, count));
                    println!("NOTE wall-clock backstop fired {} time(s) ({}) but the case finishes normally when re-executed: machine load, not a verdict", count, class);
                } else {
                    m.harness_errors.push(format!("violation class {:?} ({} hits) did not replay in a fresh worker: harness non-determinism, not reported as a violation; detail: {}", class, count, minv.detail));
                }
                continue;
            }
        };
        let kf = known.iter().find(|k| k.property == prop && k.status == "known" && k.class == class);
        let file = format!("{}/{}-{}.json", replay_dir, prop, &fnv_hex(&class)[..12]);
        let replay = json!({
            "property": prop, "engine": eng.name(), "class": class, "detail": confirmed.detail,
            "seed": ctx.seed, "tier": ctx.tier, "hits": count, "minimise_execs": execs,
            "tool_version": TOOL_VERSION, "case": minv.case,
        });
        match kf {
            Some(k) => {
                n_known += 1;
                println!("KNOWN-FINDING: property={} {} [{}; {} hits]", prop, k.what, class, count);
            }
            None => {
                let _ = std::fs::create_dir_all(&replay_dir);
                let _ = std::fs::write(&file, serde_json::to_string_pretty(&replay).unwrap());
                n_viol += 1;
                exit = 1;
                println!("VIOLATION property={} replay={}", prop, file);
                println!("  class: {}  hits: {}", class, count);
                println!("  detail: {}", confirmed.detail.replace('\n', "\n          "));
            }
        }
        reported.push(json!({"class": class, "hits": count, "known": kf.is_some(), "detail": confirmed.detail}));
    }

    // ---- evidence
    let wall = start.elapsed().as_secs_f64();
    let evaluations = m.stats.get("evaluations").copied().unwrap_or(0);
    let mut coverage = serde_json::Map::new();
    coverage.insert("evaluations".into(), json!(evaluations));
    coverage.insert("distinct_nontrivial".into(), json!(m.distinct.len()));
    coverage.insert("rule".into(), json!(eng.rule()));
    coverage.insert("samples".into(), json!(m.samples));
    coverage.insert("units".into(), json!(m.units_done));
    coverage.insert("runs_per_hour".into(), json!(if explore_s > 0.0 { (evaluations as f64 / explore_s * 3600.0) as u64 } else { 0 }));
    coverage.insert("explore_wall_s".into(), json!(explore_s));
    coverage.insert("seeding".into(), json!(format!("one base seed ({}); every unit derives its own sub-seed = hash(base, engine, unit index) and draws every case from it, so seeds per hour = units per hour = {}", ctx.seed, if explore_s > 0.0 { (m.units_done as f64 / explore_s * 3600.0) as u64 } else { 0 })));
    coverage.insert("workers".into(), json!(cfg.workers));
    coverage.insert("counters".into(), json!(m.stats));
    for (k, s) in &m.sets {
        coverage.insert(format!("distinct_{}", k), json!(s.len()));
    }
    coverage.insert("reported".into(), json!(reported));
    coverage.insert("known_findings_seen".into(), json!(n_known));
    coverage.insert("recorded_witnesses_reexecuted".into(), json!(witnesses_run));
    coverage.insert("harness_errors".into(), json!(m.harness_errors));
    coverage.insert("transient_wall_clock_timeouts".into(), json!(transient));
    if let Value::Object(o) = eng.extra_evidence(&m.stats) {
        for (k, v) in o {
            coverage.insert(k, v);
        }
    }
    let ev = json!({
        "property_id": eng.property(),
        "tier": if ctx.tier == "thorough" { "thorough" } else { "quick" },
        "seed": ctx.seed,
        "level": eng.level(),
        "coverage": Value::Object(coverage),
        "assumptions": eng.assumptions(),
        "wall_s": wall,
        "violations": n_viol,
    });
    let evdir = format!("{}/evidence", cfg.verif_dir);
    let _ = std::fs::create_dir_all(&evdir);
    let evfile = format!("{}/{}.json", evdir, eng.property());
    if let Err(e) = std::fs::write(&evfile, serde_json::to_string_pretty(&ev).unwrap()) {
        println!("HARNESS-ERROR cannot write {}: {}", evfile, e);
        return 2;
    }
    // probes stuck at zero
    for (k, n) in &m.stats {
        if k.starts_with("probe.") && *n == 0 {
            println!("WARNING probe {} stuck at zero", k);
        }
    }
    println!("[{}] evaluations={} distinct={} units={} violations={} known={} wall={:.1}s", eng.name(), evaluations, m.distinct.len(), m.units_done, n_viol, n_known, wall);
    if !m.harness_errors.is_empty() {
        for e in m.harness_errors.iter().take(10) {
            println!("HARNESS-ERROR {}", e);
        }
        if exit == 0 {
            return 2;
        }
    }
    if m.units_done == 0 || evaluations == 0 {
        println!("HARNESS-ERROR nothing was executed");
        return 2;
    }
    exit
}

pub fn replay_file(path: &str, ctx_of: impl Fn(&Value) -> Ctx) -> i32 {
    let txt = match std::fs::read_to_string(path) {
        Ok(t) => t,
        Err(e) => {
            println!("HARNESS-ERROR cannot read {}: {}", path, e);
            return 2;
        }
    };
    let v: Value = match serde_json::from_str(&txt) {
        Ok(v) => v,
        Err(e) => {
            println!("HARNESS-ERROR bad replay file: {}", e);
            return 2;
        }
    };
    let ename = v.get("engine").and_then(|e| e.as_str()).unwrap_or("");
    let eng = match crate::engine::engine_by_name(ename) {
        Some(e) => e,
        None => {
            println!("HARNESS-ERROR unknown engine {:?}", ename);
            return 2;
        }
    };
    let ctx = ctx_of(&v);
    let class = v.get("class").and_then(|e| e.as_str()).unwrap_or("").to_string();
    let prop = v.get("property").and_then(|e| e.as_str()).unwrap_or("").to_string();
    let mut w = None;
    match exec_case(&*eng, &ctx, &mut w, v.get("case").unwrap_or(&Value::Null)) {
        Ok(vs) => {
            let mut seen = BTreeSet::new();
            let mut hit = false;
            for x in &vs {
                if seen.insert(x.class.clone()) {
                    println!("  reproduced class: {}\n  detail: {}", x.class, x.detail.replace('\n', "\n          "));
                }
                if eng.same_class(&x.class, &class) {
                    hit = true;
                }
            }
            if hit {
                println!("VIOLATION property={} replay={}", prop, path);
                1
            } else if vs.is_empty() {
                println!("replay: no violation (expected class {})", class);
                0
            } else {
                println!("replay: different class than recorded ({})", class);
                println!("VIOLATION property={} replay={}", prop, path);
                1
            }
        }
        Err(e) => {
            println!("HARNESS-ERROR {}", e);
            2
        }
    }
}
