//! C20: the real `grass` binary, run as a child process in a scratch tree, its
//! syscalls wrapped by faultshim.so; the library (called with the Options the
//! flags *should* produce) is the reference model.

use std::collections::BTreeMap;
use std::io::Write;
use std::path::{Path, PathBuf};
use std::process::{Command, Stdio};
use std::sync::mpsc::channel;
use std::time::Duration;

use serde_json::{json, Value};

use crate::case::{bytes_from_json, bytes_to_json, Entry, JobSpec};
use crate::engine::{Ctx, Engine, Progress, UnitResult, Violation};
use crate::gen_project::Pools;
use crate::job::{run_job, Outcome};
use crate::prng::{hash_bytes, mix, mix_str, Rng};

pub struct Cli;

#[derive(Clone, Debug)]
pub struct CliCase {
    pub files: Vec<(String, Vec<u8>)>,
    pub stdin: Option<Vec<u8>>,
    pub argv: Vec<String>,
    /// relative path of the entry file (None with --stdin)
    pub entry: Option<String>,
    pub output: Option<String>,
    pub compressed: bool,
    pub quiet: bool,
    pub unicode: bool,
    pub charset: bool,
    pub load_paths: Vec<String>,
    pub plan: String,
    pub shim_seed: u64,
    /// environment of the child besides the shim's own variables ("{ROOT}" = scratch directory);
    /// none of it is an option of the tool, so none of it may change a byte
    pub env: Vec<(String, String)>,
}

impl CliCase {
    fn to_json(&self) -> Value {
        json!({
            "files": self.files.iter().map(|(p, b)| json!({"path": p, "bytes": bytes_to_json(b)})).collect::<Vec<_>>(),
            "stdin": self.stdin.as_ref().map(|b| bytes_to_json(b)),
            "argv": self.argv, "entry": self.entry, "output": self.output,
            "expect_options": {"compressed": self.compressed, "quiet": self.quiet, "unicode": self.unicode, "charset": self.charset, "load_paths": self.load_paths},
            "plan": self.plan, "shim_seed": self.shim_seed,
            "env": self.env.iter().map(|(k, v)| json!([k, v])).collect::<Vec<_>>(),
        })
    }
    fn from_json(v: &Value) -> Option<CliCase> {
        let mut files = vec![];
        for f in v.get("files")?.as_array()? {
            files.push((f.get("path")?.as_str()?.to_string(), bytes_from_json(f.get("bytes")?)?));
        }
        let o = v.get("expect_options")?;
        let b = |k: &str| o.get(k).and_then(|x| x.as_bool()).unwrap_or(false);
        Some(CliCase {
            files,
            stdin: match v.get("stdin") {
                Some(Value::Null) | None => None,
                Some(x) => Some(bytes_from_json(x)?),
            },
            argv: v.get("argv")?.as_array()?.iter().filter_map(|s| s.as_str().map(|s| s.to_string())).collect(),
            entry: v.get("entry").and_then(|s| s.as_str()).map(|s| s.to_string()),
            output: v.get("output").and_then(|s| s.as_str()).map(|s| s.to_string()),
            compressed: b("compressed"),
            quiet: b("quiet"),
            unicode: b("unicode"),
            charset: b("charset"),
            load_paths: o.get("load_paths").and_then(|a| a.as_array()).map(|a| a.iter().filter_map(|s| s.as_str().map(|s| s.to_string())).collect()).unwrap_or_default(),
            plan: v.get("plan").and_then(|s| s.as_str()).unwrap_or("").to_string(),
            shim_seed: v.get("shim_seed").and_then(|s| s.as_u64()).unwrap_or(1),
            env: v.get("env").and_then(|a| a.as_array()).map(|a| a.iter().filter_map(|p| Some((p.get(0)?.as_str()?.to_string(), p.get(1)?.as_str()?.to_string()))).collect()).unwrap_or_default(),
        })
    }
}

#[derive(Clone, Debug, Default)]
pub struct ShimCall {
    pub call: String,
    pub class: String,
    pub nth: u64,
    pub req: i64,
    pub res: i64,
    pub errno: i64,
    pub action: String,
}

#[derive(Clone, Debug, Default)]
pub struct CliRun {
    pub exit: Option<i32>,
    pub signal: Option<i32>,
    pub timed_out: bool,
    pub stdout: Vec<u8>,
    pub stderr: Vec<u8>,
    pub outfile: Option<Vec<u8>>,
    pub calls: Vec<ShimCall>,
}

fn scratch_root(ctx: &Ctx) -> PathBuf {
    Path::new(&ctx.target).join("scratch").join("cli")
}

struct Scratch(PathBuf);
impl Drop for Scratch {
    fn drop(&mut self) {
        let _ = std::fs::remove_dir_all(&self.0);
    }
}

fn make_tree(ctx: &Ctx, tag: u64, case: &CliCase) -> std::io::Result<Scratch> {
    let dir = scratch_root(ctx).join(format!("{}-{:x}", std::process::id(), tag));
    let _ = std::fs::remove_dir_all(&dir);
    std::fs::create_dir_all(&dir)?;
    for (p, b) in &case.files {
        let full = dir.join(p);
        if let Some(par) = full.parent() {
            std::fs::create_dir_all(par)?;
        }
        std::fs::write(full, b)?;
    }
    for lp in &case.load_paths {
        if lp != "no-such-dir" && lp != "not-a-dir" {
            let _ = std::fs::create_dir_all(dir.join(lp.replace("{ROOT}/", "")));
        }
    }
    Ok(Scratch(dir))
}

fn run_cli(ctx: &Ctx, dir: &Path, case: &CliCase) -> Result<CliRun, String> {
    let bin = Path::new(&ctx.target).join("cli/release/grass");
    let shim = Path::new(&ctx.target).join("faultshim.so");
    if !bin.exists() || !shim.exists() {
        return Err(format!("missing {} or {} (run build.sh --cli)", bin.display(), shim.display()));
    }
    let log = dir.join(".shimlog");
    let _ = std::fs::remove_file(&log);
    // "{ROOT}" in an argument or a plan stands for the scratch directory of this execution
    // (absolute spellings of INPUT and load paths); cases stay independent of where they run
    let root = dir.to_string_lossy().into_owned();
    let mut cmd = Command::new(&bin);
    cmd.args(case.argv.iter().map(|a| a.replace("{ROOT}", &root)))
        .current_dir(dir)
        .env_clear()
        .env("LD_PRELOAD", &shim)
        .env("VERIF_SHIM_LOG", &log)
        .env("VERIF_SHIM_SEED", case.shim_seed.to_string())
        .env("VERIF_FAULT_PLAN", case.plan.replace("{ROOT}", &root))
        .envs(case.env.iter().map(|(k, v)| (k.clone(), v.replace("{ROOT}", &root))))
        .stdin(if case.stdin.is_some() { Stdio::piped() } else { Stdio::null() })
        .stdout(Stdio::piped())
        .stderr(Stdio::piped());
    let mut child = cmd.spawn().map_err(|e| format!("spawn grass: {}", e))?;
    let pid = child.id();
    if let Some(data) = &case.stdin {
        if let Some(mut si) = child.stdin.take() {
            let _ = si.write_all(data);
        }
    }
    let (tx, rx) = channel();
    std::thread::spawn(move || {
        let _ = tx.send(child.wait_with_output());
    });
    let mut run = CliRun::default();
    match rx.recv_timeout(Duration::from_secs(30)) {
        Ok(Ok(out)) => {
            use std::os::unix::process::ExitStatusExt;
            run.exit = out.status.code();
            run.signal = out.status.signal();
            run.stdout = out.stdout;
            run.stderr = out.stderr;
        }
        Ok(Err(e)) => return Err(format!("wait: {}", e)),
        Err(_) => {
            unsafe {
                libc::kill(pid as i32, libc::SIGKILL);
            }
            let _ = rx.recv_timeout(Duration::from_secs(5));
            run.timed_out = true;
        }
    }
    if let Some(o) = &case.output {
        if !o.starts_with("/dev/") {
            run.outfile = std::fs::read(dir.join(o)).ok();
        }
    }
    if let Ok(t) = std::fs::read_to_string(&log) {
        for l in t.lines() {
            let f: Vec<&str> = l.split(' ').collect();
            if f.len() >= 7 {
                run.calls.push(ShimCall {
                    call: f[0].into(),
                    class: f[1..f.len() - 5].join(" ").replace(&root, "{ROOT}"),
                    nth: f[f.len() - 5].parse().unwrap_or(0),
                    req: f[f.len() - 4].parse().unwrap_or(0),
                    res: f[f.len() - 3].parse().unwrap_or(0),
                    errno: f[f.len() - 2].parse().unwrap_or(0),
                    action: f[f.len() - 1].into(),
                });
            }
        }
    }
    Ok(run)
}

/// The library, called with the options the flags should produce, in `dir`.
fn reference(dir: &Path, case: &CliCase) -> (Outcome, Vec<crate::job::LogEvent>) {
    let old = std::env::current_dir().ok();
    let _ = std::env::set_current_dir(dir);
    let mut spec = JobSpec::default();
    spec.fs_kind = "std".into();
    spec.compressed = case.compressed;
    spec.quiet = case.quiet;
    spec.unicode = case.unicode;
    spec.charset = case.charset;
    let root = dir.to_string_lossy().into_owned();
    spec.load_paths = case.load_paths.iter().map(|l| l.replace("{ROOT}", &root)).collect();
    spec.eval_fuel = 0;
    spec.entry = match (&case.entry, &case.stdin) {
        (Some(e), _) => Entry::Path(e.replace("{ROOT}", &root)),
        (None, Some(s)) => match String::from_utf8(s.clone()) {
            Ok(t) => Entry::Text(t),
            Err(_) => Entry::Text("\u{0}<<invalid utf8 on stdin>>".into()),
        },
        (None, None) => Entry::Text(String::new()),
    };
    let r = run_job(&spec);
    if let Some(o) = old {
        let _ = std::env::set_current_dir(o);
    }
    (r.outcome, r.log)
}

fn lossy(b: &[u8]) -> String {
    let s = String::from_utf8_lossy(b);
    let mut t: String = s.chars().take(400).collect();
    if s.len() > t.len() {
        t.push('…');
    }
    t
}

fn is_benign(action: &str) -> bool {
    action == "EINTR" || action.starts_with("short")
}

/// Returns (class, detail) of the first disagreement.
fn judge(case: &CliCase, run: &CliRun, refo: &Outcome, reflog: &[crate::job::LogEvent]) -> Option<(String, String)> {
    if run.timed_out {
        return Some(("cli-hang".into(), "the binary did not finish within 30 s".into()));
    }
    let fired: Vec<&ShimCall> = run.calls.iter().filter(|c| c.action != "-").collect();
    let mut hard: Vec<&&ShimCall> = fired.iter().filter(|c| !is_benign(&c.action)).collect();
    // EAGAIN (a non-blocking stdout that is full right now) may be reported as the I/O error it
    // is, or waited out and resumed: a run that exits 0 after it is held to the fault-free rules
    if run.exit == Some(0) && hard.iter().all(|c| c.action == "EAGAIN") {
        hard.clear();
    }
    let stdin_invalid = case.entry.is_none() && case.stdin.as_ref().map_or(false, |s| std::str::from_utf8(s).is_err());
    // OUTPUT may name something that is not a regular file: /dev/stdout (the CSS then arrives on
    // stdout after all) or /dev/null (only exit status and stderr can be observed)
    let to_dev_stdout = case.output.as_deref() == Some("/dev/stdout");
    let discarded = case.output.as_deref() == Some("/dev/null");
    let target: &[u8] = match &case.output {
        Some(_) if to_dev_stdout => &run.stdout,
        Some(_) => run.outfile.as_deref().unwrap_or(&[]),
        None => &run.stdout,
    };
    let ctxs = |what: &str| format!("{}\nargv={:?} plan={:?}\nexit={:?} signal={:?}\nstdout={:?}\nstderr={:?}\noutfile={:?}\nreference={}", what, case.argv, case.plan, run.exit, run.signal, lossy(&run.stdout), lossy(&run.stderr), run.outfile.as_ref().map(|b| lossy(b)), refo.brief());
    let exit_ok = run.exit == Some(0);
    // an output path in a directory that does not exist can only end in an I/O error
    let out_unwritable = case.output.as_ref().map_or(false, |o| o.contains('/') && !o.starts_with("/dev/") && !case.files.iter().any(|(p, _)| p.starts_with(&o[..o.rfind('/').unwrap() + 1])));
    if out_unwritable {
        if exit_ok || run.stderr.is_empty() || !run.stdout.is_empty() {
            return Some(("unwritable-output".into(), ctxs("the output file cannot be created (its directory does not exist): expected a non-zero exit, a message on stderr and nothing on stdout")));
        }
        return None;
    }
    if let Some(sig) = run.signal {
        // "exits non-zero and prints the rendered error": a crash (panic=abort, SIGSEGV) is neither
        return Some((format!("cli-crash(signal {})", sig), ctxs("the binary was killed by a signal instead of reporting an error")));
    }
    if hard.is_empty() {
        // fault-free or benign faults only: must mirror the library exactly
        match refo {
            Outcome::Ok(css) if !stdin_invalid => {
                if !exit_ok {
                    return Some(("exit-status".into(), ctxs("library compiles this input but the binary did not exit 0")));
                }
                if !discarded && target != css.as_bytes() {
                    return Some(("css-mismatch".into(), ctxs("the CSS written by the binary differs from what the library returns for the same input and options")));
                }
                if case.output.is_some() && !to_dev_stdout && !run.stdout.is_empty() {
                    return Some(("stdout-with-output-file".into(), ctxs("an output file was given but the binary wrote to stdout")));
                }
                let se = String::from_utf8_lossy(&run.stderr).into_owned();
                if case.quiet && !se.is_empty() {
                    return Some(("quiet-ignored".into(), ctxs("--quiet was given but the binary wrote to stderr")));
                }
                let mut pos = 0usize;
                for ev in reflog {
                    match se[pos..].find(&ev.msg) {
                        Some(i) => pos += i + ev.msg.len(),
                        None => return Some(("warning-missing".into(), ctxs(&format!("the library delivers {} {:?} but it is not on the binary's stderr (in order)", ev.kind, ev.msg)))),
                    }
                }
                if reflog.is_empty() && !se.is_empty() {
                    return Some(("stderr-noise".into(), ctxs("successful compilation without warnings, but the binary wrote to stderr")));
                }
                None
            }
            Outcome::Ok(_) | Outcome::Err(_) => {
                if exit_ok || (run.exit.is_none() && run.signal.is_none()) {
                    return Some(("exit-status".into(), ctxs("the library reports an error for this input but the binary exited 0")));
                }
                if !run.stdout.is_empty() {
                    return Some(("stdout-on-error".into(), ctxs("compile error, but the binary wrote to stdout")));
                }
                if !target.is_empty() {
                    return Some(("css-on-error".into(), ctxs("compile error, but CSS was written to the output file")));
                }
                if let Outcome::Err(e) = refo {
                    if !stdin_invalid {
                        let se = String::from_utf8_lossy(&run.stderr);
                        if !se.contains(e.display.trim_end()) {
                            return Some(("error-rendering".into(), ctxs("stderr does not contain the error as the library renders it with the same options")));
                        }
                        // what was logged before the compilation failed reaches stderr as well, in order
                        if !case.quiet {
                            let mut pos = 0usize;
                            for ev in reflog {
                                match se[pos..].find(&ev.msg) {
                                    Some(i) => pos += i + ev.msg.len(),
                                    None => return Some(("warning-missing".into(), ctxs(&format!("the library delivers {} {:?} before the compilation fails, but it is not on the binary's stderr (in order)", ev.kind, ev.msg)))),
                                }
                            }
                        }
                    }
                }
                if run.stderr.is_empty() {
                    return Some(("silent-failure".into(), ctxs("non-zero exit without anything on stderr")));
                }
                None
            }
            _ => None, // reference itself panicked or hung: C01's business
        }
    } else {
        // a hard I/O error on a stream the run needs
        if exit_ok {
            return Some(("exit-status-io".into(), ctxs(&format!("I/O error {} on {} {} but the binary exited 0", hard[0].action, hard[0].call, hard[0].class))));
        }
        if run.stderr.is_empty() && run.signal.is_none() {
            return Some(("silent-failure".into(), ctxs("I/O error and non-zero exit, but nothing on stderr")));
        }
        let on_output = hard.iter().all(|c| c.call == "write");
        if on_output {
            if let Outcome::Ok(css) = refo {
                if !css.as_bytes().starts_with(target) {
                    return Some(("garbage-on-io-error".into(), ctxs("after a write error the bytes already written are not a prefix of the CSS")));
                }
            }
        } else {
            // an output file that was already there may survive untouched when it could not be opened
            let stale = case.output.as_ref().and_then(|o| case.files.iter().find(|f| &f.0 == o)).map(|f| f.1.as_slice());
            let untouched = case.output.is_some() && stale == Some(target);
            if !run.stdout.is_empty() || (!target.is_empty() && !untouched) {
                return Some(("css-on-error".into(), ctxs("input could not be read, but CSS was written")));
            }
        }
        None
    }
}

// ------------------------------------------------------------------ generator

fn gen_case(rng: &mut Rng, ctx: &Ctx, pools: &Pools) -> CliCase {
    let corpus = &ctx.corpus;
    let tagn = rng.below(1000);
    let use_stdin = rng.chance(0.3);
    let ext = if use_stdin { "scss" } else { *rng.pick(&["scss", "scss", "scss", "scss", "sass", "css"]) };
    let semi = if ext == "sass" { "" } else { ";" };
    let mut pre = String::new();
    let mut post = String::new();
    let mut files: Vec<(String, Vec<u8>)> = vec![];
    let mut load_paths: Vec<String> = vec![];
    // load paths: same-named library in two directories, order decides
    let n_lp = if ext == "css" { 0 } else { *rng.pick(&[0usize, 0, 1, 2, 2]) };
    let lib_fails = rng.chance(0.08);
    for i in 0..n_lp {
        let d = format!("lp{}", i + 1);
        // sometimes the library itself fails: an error raised in an imported file is an error all the same
        let tail = if lib_fails { format!("@error \"lib-{}-failed\";\n", d) } else { String::new() };
        files.push((format!("{}/_lib.scss", d), format!(".from-{} {{ n: {}; }}\n{}", d, i + 1, tail).into_bytes()));
        // the same directory may be spelled in several ways
        load_paths.push(match rng.below(10) {
            0 => format!("./{}", d),
            1 => format!("{{ROOT}}/{}", d),
            2 => format!("{}/", d),
            _ => d,
        });
    }
    // load paths that cannot be used (missing directory, a plain file) never match and never hurt
    if n_lp > 0 && rng.chance(0.15) {
        let pos = rng.usize_below(load_paths.len() + 1);
        if rng.chance(0.5) {
            load_paths.insert(pos, "no-such-dir".into());
        } else {
            files.push(("not-a-dir".into(), b"plain file\n".to_vec()));
            load_paths.insert(pos, "not-a-dir".into());
        }
    }
    // the working directory itself as a load path, spelled "." or as the empty string (which the
    // library joins with the URL like any other): a file below a subdirectory then finds what
    // lies next to the working directory
    let cwd_lp = ext != "css" && !use_stdin && rng.chance(0.08);
    if cwd_lp {
        files.push(("_cwdlib.scss".into(), b".cwdlib { found: through-the-working-directory; }\n".to_vec()));
        let pos = rng.usize_below(load_paths.len() + 1);
        load_paths.insert(pos, if rng.chance(0.6) { String::new() } else { ".".into() });
        pre.push_str(&format!("@import \"cwdlib\"{}\n", semi));
    }
    if n_lp > 0 {
        if rng.chance(0.3) {
            load_paths.reverse();
        }
        pre.push_str(&format!("@import \"lib\"{}\n", semi));
        if n_lp == 2 && rng.chance(0.5) {
            files.push(("lp2/_only.scss".into(), b".only-lp2 { k: v; }\n".to_vec()));
            pre.push_str(&format!("@import \"only\"{}\n", semi));
        }
    }
    let body: String = match ext {
        "sass" => {
            if rng.chance(0.8) && !pools.sass.is_empty() {
                corpus[*rng.pick(&pools.sass)].input.clone()
            } else {
                "a\n  b: c\n".into()
            }
        }
        "css" => corpus[*rng.pick(&pools.css_out)].expected.clone().unwrap(),
        _ => {
            let r = rng.below(100);
            if r < 60 {
                corpus[*rng.pick(&pools.scss_ok)].input.clone()
            } else if r < 85 {
                corpus[*rng.pick(&pools.scss_any)].input.clone()
            } else {
                "a { b: c; }\n".into()
            }
        }
    };
    if ext != "css" {
        if rng.chance(0.4) {
            pre.push_str(&format!("@warn \"w-{}\"{}\n@debug \"d-{}\"{}\n", tagn, semi, tagn, semi));
        }
        // a diagnostic whose expression cannot be evaluated: what the library makes of it under
        // `quiet` (it does not even evaluate a @debug then) is what the tool has to make of it
        if rng.chance(0.1) {
            let d = *rng.pick(&["@debug 1px + 1s", "@debug $no-such-variable", "@warn 1px + 1s", "@debug \"#{1px + 1em}\""]);
            post.push_str(&format!("\n{}{}\n", d, semi));
        }
        if rng.chance(0.35) {
            if ext == "sass" {
                post.push_str("\n.nonascii\n  content: \"é→ü\"\n");
            } else {
                post.push_str("\n.nonascii { content: \"é→ü\"; }\n");
            }
        }
        if rng.chance(0.2) {
            post.push_str(&format!("\n@error \"boom-{}\"{}\n", tagn, semi));
        } else if rng.chance(0.08) && ext == "scss" {
            post.push_str("\na { b: }\n");
        }
    }
    // a large stylesheet: the CSS no longer fits one write / one pipe buffer
    if ext == "scss" && rng.chance(0.06) {
        post.push_str(&format!("\n@for $i from 1 through {} {{ .big-#{{$i}} {{ padding: $i * 1px; margin: 0 auto; }} }}\n", rng.range(1500, 4000)));
    }
    let mut text = format!("{}{}{}", pre, body, post);
    // an empty or whitespace-only stylesheet: the library returns the empty string, and that
    // is what must end up in the output (a stale output file may not survive)
    if rng.chance(0.04) {
        text = (*rng.pick(&["", "\n", "  \n\n", "// only a comment\n"])).to_string();
    }
    let compressed = rng.chance(0.5);
    let quiet = rng.chance(0.35);
    let no_unicode = rng.chance(0.4);
    let no_charset = rng.chance(0.4);
    let mut argv: Vec<String> = vec![];
    let mut flagsv: Vec<Vec<String>> = vec![];
    if compressed {
        flagsv.push(match rng.below(5) {
            0 => vec!["--style".into(), "compressed".into()],
            1 => vec!["-s".into(), "compressed".into()],
            2 => vec!["--style=compressed".into()],
            3 => vec!["-t".into(), "compressed".into()],
            _ => vec!["-s".into(), "COMPRESSED".into()],
        });
    } else if rng.chance(0.3) {
        flagsv.push(vec!["--style".into(), "expanded".into()]);
    }
    if quiet {
        flagsv.push(vec![if rng.chance(0.5) { "-q".into() } else { "--quiet".into() }]);
    }
    if no_unicode {
        flagsv.push(vec!["--no-unicode".into()]);
    }
    if no_charset {
        flagsv.push(vec!["--no-charset".into()]);
    }
    if rng.chance(0.1) {
        flagsv.push(vec!["--precision".into(), "5".into()]);
    }
    rng.shuffle(&mut flagsv);
    // short flags may be written as one group, with the value of -s / -t attached or following
    let short_q = flagsv.iter().position(|f| f.len() == 1 && f[0] == "-q");
    let short_s = flagsv.iter().position(|f| f.len() == 2 && (f[0] == "-s" || f[0] == "-t"));
    if let (Some(qi), Some(si)) = (short_q, short_s) {
        if rng.chance(0.6) {
            let letter = flagsv[si][0][1..].to_string();
            let value = flagsv[si][1].clone();
            flagsv[si] = if rng.chance(0.5) { vec![format!("-q{}{}", letter, value)] } else { vec![format!("-q{}", letter), value] };
            flagsv.remove(qi);
        }
    } else if let Some(si) = short_s {
        if rng.chance(0.3) {
            flagsv[si] = vec![format!("{}{}", flagsv[si][0], flagsv[si][1])];
        }
    }
    for f in flagsv {
        argv.extend(f);
    }
    // load paths keep their relative order
    let mut lp_args: Vec<String> = vec![];
    for lp in &load_paths {
        // (an empty value cannot be attached to the short flag)
        match if lp.is_empty() { rng.below(3) } else { rng.below(4) } {
            0 => {
                lp_args.push("-I".into());
                lp_args.push(lp.clone());
            }
            3 => lp_args.push(format!("-I{}", lp)),
            1 => {
                lp_args.push("--load-path".into());
                lp_args.push(lp.clone());
            }
            _ => lp_args.push(format!("--load-path={}", lp)),
        }
    }
    if rng.chance(0.5) {
        let mut a2 = lp_args.clone();
        a2.extend(argv);
        argv = a2;
    } else {
        argv.extend(lp_args);
    }
    let mut entry = None;
    let mut entry_file: Option<String> = None;
    let mut dashdash = false;
    let n_flag_args = argv.len();
    let mut stdin = None;
    let missing = !use_stdin && rng.chance(0.04);
    if use_stdin {
        argv.push("--stdin".into());
        // the same text may arrive with a byte-order mark or with CRLF line ends
        let mut t = text.clone();
        // text from stdin has no directory of its own: relative imports start at the working directory
        if rng.chance(0.2) {
            files.push(("_sibling.scss".into(), b".sibling { of: cwd; }\n".to_vec()));
            files.push(("src/_sibling.scss".into(), b".sibling { of: src; }\n".to_vec()));
            t = format!("@import \"sibling\";\n{}", t);
        }
        match rng.below(10) {
            0 => t = format!("{}{}", '\u{feff}', t),
            1 => t = t.replace('\n', "\r\n"),
            _ => {}
        }
        stdin = Some(t.into_bytes());
    } else {
        // the input may live in a subdirectory and import a sibling: relative imports start
        // at the file's own directory, not at the working directory
        let in_sub = ext != "css" && (cwd_lp || rng.chance(0.25));
        let mut text = text.clone();
        let name = if in_sub { format!("src/in{}.{}", tagn % 7, ext) } else { format!("in{}.{}", tagn % 7, ext) };
        if in_sub {
            files.push(("src/_sibling.scss".into(), b".sibling { of: src; }\n".to_vec()));
            files.push(("_sibling.scss".into(), b".sibling { of: cwd; }\n".to_vec()));
            text = format!("@import \"sibling\"{}\n{}", semi, text);
        }
        if !missing {
            files.push((name.clone(), text.clone().into_bytes()));
        }
        entry_file = Some(name.clone());
        // the same file may be named in several ways: the spelling shows up in error locations
        // and is where relative imports start, but it never changes what is compiled
        let spelled = match rng.below(12) {
            0 => format!("./{}", name),
            1 => format!("{{ROOT}}/{}", name),
            2 => {
                files.push(("aux/.keep".into(), vec![]));
                format!("aux/../{}", name)
            }
            _ => name.clone(),
        };
        if rng.chance(0.1) {
            argv.push("--".into());
            dashdash = true;
        }
        argv.push(spelled.clone());
        entry = Some(spelled);
    }
    let mut output = None;
    // (with --stdin the only positional argument is the output file)
    if rng.chance(0.35) && (!use_stdin || rng.chance(0.5)) {
        let o = match rng.below(100) {
            0..=5 => "no-such-dir-for-output/out.css".to_string(),
            // not a regular file: a pipe reached through /dev/stdout, the null device
            6..=10 => "/dev/stdout".to_string(),
            11..=14 => "/dev/null".to_string(),
            // a directory that is there
            15..=22 => {
                files.push(("outdir/.keep".into(), vec![]));
                "outdir/out.css".to_string()
            }
            // the name of the output file says nothing about what is written into it
            23..=52 => (*rng.pick(&["out.min.css", "out.min.css", "out.min.css", "site.min.css", "out.sass", "out.scss", "out", "o.u.t.css", "out.css.map", "OUT.CSS", "compressed.css", "expanded.txt"])).to_string(),
            _ => "out.css".to_string(),
        };
        argv.push(o.clone());
        // an older, longer output file may already be there: nothing of it may survive
        if rng.chance(0.35) && !o.starts_with("/dev/") {
            let mut old = b"/* stale output of an earlier run */\n".to_vec();
            for i in 0..rng.range(10, 400) {
                old.extend_from_slice(format!(".stale-{} {{ left: over; }}\n", i).as_bytes());
            }
            files.push((o.clone(), old));
        }
        output = Some(o);
    }
    // input that is not valid UTF-8 (file or stdin): an error, never CSS
    if rng.chance(0.03) {
        let bad = b"a { b: c; }\n\xff\xfe { d: e; }\n".to_vec();
        if let Some(si) = stdin.as_mut() {
            *si = bad;
        } else if let Some(e) = &entry_file {
            for f in files.iter_mut() {
                if &f.0 == e {
                    f.1 = bad.clone();
                }
            }
        }
    }
    // the positional arguments may come first (flags are accepted anywhere on the line)
    if !dashdash && !use_stdin && rng.chance(0.15) {
        let pos: Vec<String> = argv.split_off(n_flag_args);
        let mut a2 = pos;
        a2.extend(argv);
        argv = a2;
    }
    // the environment is no option of the tool: whatever a shell, a CI system or a wrapper script
    // exports, the bytes and the exit status stay what the flags say
    let mut env: Vec<(String, String)> = vec![];
    if rng.chance(0.3) {
        let pool: [(&str, &[&str]); 14] = [
            ("NO_COLOR", &["1", ""]),
            ("CLICOLOR_FORCE", &["1"]),
            ("FORCE_COLOR", &["1"]),
            ("TERM", &["dumb", "xterm-256color", ""]),
            ("COLUMNS", &["20", "0", "abc"]),
            ("LANG", &["C", "de_DE.UTF-8", "tr_TR.ISO-8859-9"]),
            ("LC_ALL", &["C", "POSIX", "ja_JP.eucJP"]),
            ("SASS_PATH", &["{ROOT}/envdecoy", "envdecoy", "{ROOT}/envdecoy:{ROOT}"]),
            ("SASS_STYLE", &["compressed", "expanded"]),
            ("SASS_QUIET", &["1"]),
            ("HOME", &["/nonexistent", "{ROOT}/envdecoy"]),
            ("PWD", &["/", "{ROOT}/envdecoy"]),
            ("TMPDIR", &["/nonexistent"]),
            ("RUST_BACKTRACE", &["1", "full"]),
        ];
        for _ in 0..rng.range(1, 4) {
            let (k, vs) = rng.pick(&pool);
            if !env.iter().any(|(e, _)| e == k) {
                env.push((k.to_string(), rng.pick(vs).to_string()));
            }
        }
        for n in ["_lib.scss", "_only.scss", "_sibling.scss", "lib.css"] {
            files.push((format!("envdecoy/{}", n), b".env-decoy { reached: through-the-environment; }\n".to_vec()));
        }
    }
    CliCase { files, stdin, argv, entry, output, compressed, quiet, unicode: !no_unicode, charset: !no_charset, load_paths, plan: String::new(), shim_seed: 1 + rng.below(1 << 40), env }
}

fn fault_plans(case: &CliCase, base: &CliRun) -> Vec<String> {
    let mut out = vec![];
    let entry_cls = case.entry.as_ref().map(|e| format!("@{}", e));
    let out_cls = case.output.as_ref().map(|e| format!("@{}", e));
    let mut seen = std::collections::BTreeSet::new();
    for c in &base.calls {
        if !seen.insert((c.call.clone(), c.class.clone(), c.nth)) {
            continue;
        }
        let is_entry = Some(&c.class) == entry_cls.as_ref();
        let is_out = Some(&c.class) == out_cls.as_ref();
        let acts: Vec<&str> = match (c.call.as_str(), c.class.as_str()) {
            ("read", "fd0") => vec!["EINTR", "short1", "short5", "EIO"],
            ("read", _) if is_entry => vec!["EINTR", "short1", "short7", "EIO"],
            ("write", "fd1") => vec!["EINTR", "short1", "short3", "ENOSPC", "EIO", "EPIPE"],
            ("write", "fd2") => vec!["EINTR", "short1"],
            ("write", _) if is_out => vec!["EINTR", "short1", "short4", "ENOSPC", "EIO"],
            ("open", _) if is_entry => vec!["EINTR", "ENOENT", "EACCES", "EMFILE", "EISDIR"],
            ("open", _) if is_out => vec!["EINTR", "EACCES", "ENOSPC", "EISDIR"],
            // files reached through @import from a load path: the library reads them through StdFs
            ("read", cls) if cls.ends_with("_lib.scss") || cls.ends_with("_only.scss") => vec!["EINTR", "short3", "EIO"],
            ("open", cls) if cls.ends_with("_lib.scss") || cls.ends_with("_only.scss") => vec!["EINTR", "EACCES", "EMFILE"],
            _ => vec![],
        };
        // stderr is written in many tiny pieces: fault only the first few
        if c.class == "fd2" && c.nth > 2 {
            continue;
        }
        // imported files are opened by their canonical (absolute) path, which contains the
        // name of the scratch directory: address them by suffix
        let cls = if c.class.ends_with("_lib.scss") || c.class.ends_with("_only.scss") {
            let parts: Vec<&str> = c.class.rsplit('/').take(2).collect();
            format!("@*{}/{}", parts.get(1).copied().unwrap_or(""), parts.first().copied().unwrap_or(""))
        } else {
            c.class.clone()
        };
        for a in acts {
            out.push(format!("{}:{}:{}:{}", c.call, cls, c.nth, a));
        }
        if c.call == "write" && c.class == "fd1" {
            // stdout is a non-blocking pipe that is full: at once, or after part of the CSS went through
            out.push(format!("write:fd1:{}:EAGAIN", c.nth));
            out.push(format!("write:fd1:{}:short3;write:fd1:{}:EAGAIN", c.nth, c.nth + 1));
        }
    }
    out
}

fn exec_one(ctx: &Ctx, tag: u64, case: &CliCase) -> Result<(Option<(String, String)>, CliRun, Outcome, String), String> {
    let sc = make_tree(ctx, tag, case).map_err(|e| format!("scratch tree: {}", e))?;
    let (refo, reflog) = reference(&sc.0, case);
    let run = run_cli(ctx, &sc.0, case)?;
    let v = judge(case, &run, &refo, &reflog);
    Ok((v, run, refo, sc.0.to_string_lossy().into_owned()))
}

impl Engine for Cli {
    fn name(&self) -> &'static str {
        "cli"
    }
    fn property(&self) -> &'static str {
        "C20"
    }
    fn level(&self) -> &'static str {
        "fault_enumeration"
    }
    fn units(&self, ctx: &Ctx) -> u64 {
        if ctx.tier == "thorough" {
            4000
        } else {
            320
        }
    }
    fn unit_timeout_s(&self) -> u64 {
        300
    }
    fn case_timeout_s(&self) -> u64 {
        90
    }
    fn run_unit(&self, ctx: &Ctx, unit: u64, progress: Progress) -> UnitResult {
        let mut res = UnitResult::default();
        let mut rng = Rng::new(mix(mix_str(ctx.seed, "cli"), unit));
        let pools = Pools::new(&ctx.corpus, false);
        let base = gen_case(&mut rng, ctx, &pools);
        let mut idx = 0u64;
        let mut run_case = |case: &CliCase, res: &mut UnitResult| -> Option<CliRun> {
            let i = idx;
            idx += 1;
            let c2 = case.clone();
            if !progress(i, &move || c2.to_json()) {
                return None;
            }
            match exec_one(ctx, mix(unit, i), case) {
                Ok((v, run, refo, root)) => {
                    let m = |b: &[u8]| String::from_utf8_lossy(b).replace(&root, "$ROOT");
                    res.fold(format!("{:?}|{:?}|{}", run.exit, run.signal, run.timed_out).as_bytes());
                    res.fold(m(&run.stdout).as_bytes());
                    res.fold(m(&run.stderr).as_bytes());
                    res.fold(run.outfile.as_deref().unwrap_or(b"<none>"));
                    for c in &run.calls {
                        res.fold(format!("{}|{}|{}|{}|{}|{}|{}", c.call, c.class.replace(&root, "$ROOT"), c.nth, c.req, c.res, c.errno, c.action).as_bytes());
                    }
                    res.fold(refo.observable().replace(&root, "$ROOT").as_bytes());
                    res.bump("evaluations", 1);
                    let fired: Vec<&ShimCall> = run.calls.iter().filter(|c| c.action != "-").collect();
                    if case.plan.is_empty() {
                        res.bump("fault_free_runs", 1);
                    } else {
                        res.bump("faulted_runs", 1);
                    }
                    for f in &fired {
                        let a = if f.action.starts_with("short") { "short" } else { f.action.as_str() };
                        res.bump(&format!("fired.{}", a), 1);
                        res.bump(&format!("fired_on.{}.{}", f.call, if f.class.starts_with('@') { "file" } else { f.class.as_str() }), 1);
                    }
                    match &refo {
                        Outcome::Ok(_) => res.bump("reference.ok", 1),
                        Outcome::Err(_) => res.bump("reference.err", 1),
                        _ => res.bump("reference.panic_or_hang", 1),
                    }
                    if !fired.is_empty() || case.plan.is_empty() {
                        res.distinct.push(hash_bytes(11, case.to_json().to_string().as_bytes()));
                    }
                    if run.exit.map_or(false, |c| c != 0) && case.plan.is_empty() {
                        res.bump("probe.nonzero_exit_fault_free", 1);
                    }
                    if case.output.is_some() {
                        res.bump("probe.output_file_runs", 1);
                    }
                    if case.stdin.is_some() {
                        res.bump("probe.stdin_runs", 1);
                    }
                    if !case.load_paths.is_empty() {
                        res.bump("probe.load_path_runs", 1);
                    }
                    if let Some((class, detail)) = v {
                        res.violations.push(Violation { property: "C20".into(), class, detail, case: case.to_json() });
                    }
                    if res.samples.len() < 2 {
                        res.samples.push(json!({"argv": case.argv, "plan": case.plan, "exit": run.exit, "stdout_len": run.stdout.len(), "stderr_len": run.stderr.len(), "shim_calls": run.calls.len()}));
                    }
                    Some(run)
                }
                Err(e) => {
                    res.bump("harness_failures", 1);
                    res.violations.push(Violation { property: "C20".into(), class: "harness".into(), detail: e, case: case.to_json() });
                    None
                }
            }
        };
        let base_run = match run_case(&base, &mut res) {
            Some(r) => r,
            None => return res,
        };
        for plan in fault_plans(&base, &base_run) {
            let mut c = base.clone();
            c.plan = plan;
            run_case(&c, &mut res);
        }
        res
    }
    fn exec(&self, ctx: &Ctx, case: &Value) -> Vec<Violation> {
        let c = match CliCase::from_json(case) {
            Some(c) => c,
            None => return vec![Violation { property: "C20".into(), class: "bad-case".into(), detail: "unparsable case".into(), case: case.clone() }],
        };
        match exec_one(ctx, hash_bytes(1, case.to_string().as_bytes()), &c) {
            Ok((Some((class, detail)), _, _, _)) => vec![Violation { property: "C20".into(), class, detail, case: case.clone() }],
            Ok((None, _, _, _)) => vec![],
            Err(e) => vec![Violation { property: "C20".into(), class: "harness".into(), detail: e, case: case.clone() }],
        }
    }
    fn shrink(&self, case: &Value) -> Vec<Value> {
        let c = match CliCase::from_json(case) {
            Some(c) => c,
            None => return vec![],
        };
        let mut out = vec![];
        // drop optional flags together with the expectation they carry
        let flag_sets: Vec<(Vec<&str>, Box<dyn Fn(&mut CliCase)>)> = vec![
            (vec!["-q", "--quiet"], Box::new(|c: &mut CliCase| c.quiet = false)),
            (vec!["--no-unicode"], Box::new(|c: &mut CliCase| c.unicode = true)),
            (vec!["--no-charset"], Box::new(|c: &mut CliCase| c.charset = true)),
        ];
        for (names, fix) in flag_sets {
            if c.argv.iter().any(|a| names.contains(&a.as_str())) {
                let mut d = c.clone();
                d.argv.retain(|a| !names.contains(&a.as_str()));
                fix(&mut d);
                out.push(d.to_json());
            }
        }
        // shrink the text of the entry / stdin
        let shrink_text = |t: &[u8]| -> Vec<Vec<u8>> {
            let mut spec = JobSpec::default();
            spec.files = vec![("x".into(), t.to_vec())];
            crate::shrink::shrink_job(&spec).into_iter().filter_map(|s| s.files.first().map(|f| f.1.clone())).filter(|b| b.len() < t.len()).collect()
        };
        if let Some(s) = &c.stdin {
            for t in shrink_text(s) {
                let mut d = c.clone();
                d.stdin = Some(t);
                out.push(d.to_json());
            }
        }
        for i in 0..c.files.len() {
            if Some(&c.files[i].0) == c.entry.as_ref() {
                for t in shrink_text(&c.files[i].1) {
                    let mut d = c.clone();
                    d.files[i].1 = t;
                    out.push(d.to_json());
                }
            }
        }
        out
    }
    fn rule(&self) -> String {
        "seeded scenarios: entry text = corpus item (valid, invalid, or native indented / plain CSS) optionally wrapped with @import from -I directories (same-named file in two load paths), @warn/@debug, non-ASCII content, trailing @error or syntax error; argv = seeded spellings of --style/-s, -q/--quiet, --no-unicode, --no-charset, -I/--load-path x {file argument, --stdin} x {stdout, output file, /dev/stdout or /dev/null as output file}; the Options the flags should produce are generated with the argv. Per scenario the fault position is enumerated from the shim log of the fault-free run: every read/write/open on {stdin, stdout, first stderr writes, entry file, output file} x {EINTR, short transfer, and the hard errnos applicable to that call}, plus EAGAIN on stdout (at once, and after a short write). Non-trivial = fault-free scenarios plus runs whose planned fault actually fired (per shim log); distinct by full case.".into()
    }
    fn assumptions(&self) -> Vec<String> {
        vec![
            "the binary is built from the working tree with the shipped release profile except LTO (off, build time only)".into(),
            "faultshim.so interposes libc read/write/open*/close/getrandom; std reaches the kernel through these symbols (verified by the shim log of every run)".into(),
            "reference = grass_compiler called in-process with StdFs in the same scratch directory; flag-to-option mapping is generated with the argv, independent of main.rs".into(),
            "hard faults are placed only on streams whose failure cannot legitimately go unnoticed (stdin, entry file, stdout, output file); EBADF on a closed stdout is std's documented success and is excluded".into(),
        ]
    }
    fn extra_evidence(&self, stats: &BTreeMap<String, u64>) -> Value {
        let mut fired = serde_json::Map::new();
        for (k, v) in stats {
            if let Some(kind) = k.strip_prefix("fired.") {
                fired.insert(kind.to_string(), json!(v));
            }
        }
        json!({
            "faults_fired_by_kind": fired,
            "fault_free_runs": stats.get("fault_free_runs").copied().unwrap_or(0),
            "faulted_runs": stats.get("faulted_runs").copied().unwrap_or(0),
            "simulated_time": "not applicable: the CLI has no clock or timer",
            "real_vs_stub": {"real": ["grass binary (main.rs, clap, StdFs, StdLogger)", "kernel file system in a scratch directory"], "stub": ["libc read/write/open (wrapped by faultshim.so)", "getrandom (seeded)"]},
        })
    }
}
