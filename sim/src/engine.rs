//! Engine interface shared by driver and worker.

use std::collections::BTreeMap;
use std::sync::Arc;

use serde_json::{json, Value};

use crate::corpus::CorpusItem;

#[derive(Clone, Debug)]
pub struct Ctx {
    pub seed: u64,
    pub tier: String,
    pub repo: String,
    pub corpus: Arc<Vec<CorpusItem>>,
    pub target: String,
}

#[derive(Clone, Debug)]
pub struct Violation {
    pub property: String,
    /// coarse, stable class, e.g. `panic@crates/compiler/src/error.rs:55`
    pub class: String,
    pub detail: String,
    /// explicit case (engine specific) that re-creates it
    pub case: Value,
}

impl Violation {
    pub fn to_json(&self) -> Value {
        json!({"property": self.property, "class": self.class, "detail": self.detail, "case": self.case})
    }
    pub fn from_json(v: &Value) -> Option<Self> {
        Some(Violation {
            property: v.get("property")?.as_str()?.to_string(),
            class: v.get("class")?.as_str()?.to_string(),
            detail: v.get("detail").and_then(|d| d.as_str()).unwrap_or("").to_string(),
            case: v.get("case").cloned().unwrap_or(Value::Null),
        })
    }
}

#[derive(Clone, Debug, Default)]
pub struct UnitResult {
    pub stats: BTreeMap<String, u64>,
    pub violations: Vec<Violation>,
    pub samples: Vec<Value>,
    /// hashes of distinct non-trivial cases (engine defines the rule)
    pub distinct: Vec<u64>,
    /// other hash sets, by name (e.g. "interleavings", "histories")
    pub sets: BTreeMap<String, Vec<u64>>,
    /// order-sensitive digest of everything observed in this unit (outcomes,
    /// Fs/logger/syscall histories, schedules): the determinism check runs each
    /// unit twice and compares
    pub digest: u64,
}

impl UnitResult {
    pub fn bump(&mut self, k: &str, n: u64) {
        *self.stats.entry(k.to_string()).or_insert(0) += n;
    }
    pub fn fold(&mut self, bytes: &[u8]) {
        if let Ok(f) = std::env::var("VERIF_DEBUG_FOLD") {
            use std::io::Write;
            if let Ok(mut fh) = std::fs::OpenOptions::new().create(true).append(true).open(f) {
                let _ = writeln!(fh, "{}", String::from_utf8_lossy(bytes).replace('\n', "\\n"));
            }
        }
        self.digest = crate::prng::mix(self.digest, crate::prng::hash_bytes(0, bytes));
    }
    pub fn fold_job(&mut self, r: &crate::job::JobResult) {
        self.fold_job_in(r, "");
    }
    /// `root`: a scratch directory whose name differs between executions (pid); it is masked.
    pub fn fold_job_in(&mut self, r: &crate::job::JobResult, root: &str) {
        let m = |s: String| if root.is_empty() { s } else { s.replace(root, "$ROOT") };
        self.fold(m(r.outcome.observable()).as_bytes());
        for e in &r.fs {
            self.fold(m(format!("{}|{}|{}|{}|{}", e.k, e.op.name(), e.path, e.result, e.faulted)).as_bytes());
        }
        for e in &r.log {
            self.fold(m(format!("{}|{}|{}|{}|{}", e.kind, e.file, e.line, e.col, e.msg)).as_bytes());
        }
        self.fold(format!("{}|{}", r.eval_ticks, r.lexer_ops).as_bytes());
        self.bump("jobs_under_simulated_clock", 1);
        if r.clock_reads > 0 {
            self.bump("probe.clock_reads_inside_compilation", r.clock_reads);
        }
    }
    pub fn set_add(&mut self, set: &str, h: u64) {
        self.sets.entry(set.to_string()).or_default().push(h);
    }
    pub fn to_json(&self) -> Value {
        json!({
            "stats": self.stats,
            "violations": self.violations.iter().map(|v| v.to_json()).collect::<Vec<_>>(),
            "samples": self.samples,
            "distinct": self.distinct.iter().map(|h| format!("{:x}", h)).collect::<Vec<_>>(),
            "digest": format!("{:x}", self.digest),
            "sets": self.sets.iter().map(|(k, v)| (k.clone(), json!(v.iter().map(|h| format!("{:x}", h)).collect::<Vec<_>>()))).collect::<serde_json::Map<_, _>>(),
        })
    }
    pub fn from_json(v: &Value) -> Option<Self> {
        let mut r = UnitResult::default();
        if let Some(o) = v.get("stats").and_then(|s| s.as_object()) {
            for (k, n) in o {
                r.stats.insert(k.clone(), n.as_u64().unwrap_or(0));
            }
        }
        for x in v.get("violations").and_then(|s| s.as_array()).cloned().unwrap_or_default() {
            r.violations.push(Violation::from_json(&x)?);
        }
        r.samples = v.get("samples").and_then(|s| s.as_array()).cloned().unwrap_or_default();
        let hx = |a: &Value| -> Vec<u64> { a.as_array().map(|a| a.iter().filter_map(|h| u64::from_str_radix(h.as_str()?, 16).ok()).collect()).unwrap_or_default() };
        if let Some(d) = v.get("distinct") {
            r.distinct = hx(d);
        }
        r.digest = v.get("digest").and_then(|d| d.as_str()).and_then(|d| u64::from_str_radix(d, 16).ok()).unwrap_or(0);
        if let Some(o) = v.get("sets").and_then(|s| s.as_object()) {
            for (k, a) in o {
                r.sets.insert(k.clone(), hx(a));
            }
        }
        Some(r)
    }
}

/// Callback the engine invokes before executing case `idx` of a unit. Returns
/// false if the case must be skipped (already attributed to a crash).
pub type Progress<'a> = &'a mut dyn FnMut(u64, &dyn Fn() -> Value) -> bool;

pub trait Engine: Sync + Send {
    fn name(&self) -> &'static str;
    fn property(&self) -> &'static str;
    fn level(&self) -> &'static str;
    /// number of work units for this tier
    fn units(&self, ctx: &Ctx) -> u64;
    fn run_unit(&self, ctx: &Ctx, unit: u64, progress: Progress) -> UnitResult;
    /// run one explicit case; return the violations it shows (possibly none)
    fn exec(&self, ctx: &Ctx, case: &Value) -> Vec<Violation>;
    /// smaller variants of a case, most aggressive first
    fn shrink(&self, case: &Value) -> Vec<Value>;
    /// static description for the evidence file
    fn rule(&self) -> String;
    fn assumptions(&self) -> Vec<String>;
    /// per-unit wall-clock backstop in seconds (normal mode)
    fn unit_timeout_s(&self) -> u64 {
        120
    }
    /// per-case wall-clock backstop in seconds (careful mode, exec)
    fn case_timeout_s(&self) -> u64 {
        20
    }
    /// stack size of the thread that runs a unit or an explicit case
    fn stack_bytes(&self) -> usize {
        8 << 20
    }
    /// extra evidence keys computed by the driver from merged stats
    fn extra_evidence(&self, _stats: &BTreeMap<String, u64>) -> Value {
        json!({})
    }
    /// whether exec'ing a case class-matches `class` (default: any violation of the same class)
    fn same_class(&self, found: &str, wanted: &str) -> bool {
        found == wanted
    }
}

pub fn engine_by_name(name: &str) -> Option<Box<dyn Engine>> {
    match name {
        "fsfault" => Some(Box::new(crate::engine_fsfault::FsFault)),
        "cli" => Some(Box::new(crate::engine_cli::Cli)),
        "imports" => Some(Box::new(crate::engine_imports::Imports)),
        "logger" => Some(Box::new(crate::engine_logger::LoggerEngine)),
        "sched" => Some(Box::new(crate::engine_sched::SchedEngine)),
        _ => None,
    }
}

pub fn engine_for_property(p: &str) -> Option<&'static str> {
    match p {
        "C01" => Some("fsfault"),
        "C02" => Some("sched"),
        "C13" => Some("imports"),
        "C19" => Some("logger"),
        "C20" => Some("cli"),
        _ => None,
    }
}
