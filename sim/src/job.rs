//! Run one JobSpec on the current thread with every seam owned by the simulator.

use std::cell::RefCell;
use std::panic::{catch_unwind, AssertUnwindSafe};
use std::sync::OnceLock;

use grass_compiler::codemap::SpanLoc;
use grass_compiler::sass_value::{ArgumentResult, Value as SassValue};
use grass_compiler::{Builtin, ErrorKind, InputSyntax, Logger, Options, OutputStyle, Visitor};
use serde_json::{json, Value};

use crate::case::{Entry, JobSpec};
use crate::sched;
use crate::simfs::{FsEvent, SimFs};

/// Hook H4: the cartesian products of `selector::extend::functions::paths` may build this
/// many paths per compilation. Exhausting it with fewer than 10^5 evaluation ticks spent is
/// the extension algorithm blowing up, whatever the stylesheet (it has no loop of its own there).
pub const PATHS_FUEL: u64 = 200_000;

#[derive(Clone, Debug, PartialEq, Eq)]
pub struct LogEvent {
    pub kind: &'static str,
    pub file: String,
    pub line: usize,
    pub col: usize,
    pub msg: String,
    /// OS thread that delivered it (simulated thread id, or usize::MAX)
    pub thread: usize,
}

#[derive(Debug, Default)]
pub struct SimLogger {
    pub events: RefCell<Vec<LogEvent>>,
}

impl Logger for SimLogger {
    fn debug(&self, location: SpanLoc, message: &str) {
        sched::point(sched::PointKind::Log, 1);
        self.events.borrow_mut().push(LogEvent {
            kind: "debug",
            file: location.file.name().to_string(),
            line: location.begin.line + 1,
            col: location.begin.column + 1,
            msg: message.to_string(),
            thread: sched::current_tid(),
        });
    }
    fn warn(&self, location: SpanLoc, message: &str) {
        sched::point(sched::PointKind::Log, 1);
        self.events.borrow_mut().push(LogEvent {
            kind: "warn",
            file: location.file.name().to_string(),
            line: location.begin.line + 1,
            col: location.begin.column + 1,
            msg: message.to_string(),
            thread: sched::current_tid(),
        });
    }
}

#[derive(Clone, Debug, PartialEq, Eq)]
pub struct ErrInfo {
    pub display: String,
    /// "parse" | "io" | "utf8"
    pub kind: String,
    pub message: String,
    pub file: String,
    pub line: usize,
    pub col: usize,
    pub end_line: usize,
    pub end_col: usize,
    /// None = location checks passed; Some(reason) otherwise
    pub loc_problem: Option<String>,
    /// the source text the error's file object carries
    pub src_hash: u64,
    pub src_len: usize,
    pub ascii_display: String,
}

#[derive(Clone, Debug, PartialEq, Eq)]
pub enum Outcome {
    Ok(String),
    Err(ErrInfo),
    Panic { loc: String, msg: String },
    /// "lexer" | "eval"
    Hang { kind: String, site: String },
}

impl Outcome {
    pub fn class(&self) -> Option<String> {
        match self {
            Outcome::Ok(_) | Outcome::Err(_) => None,
            Outcome::Panic { loc, .. } => Some(format!("panic@{}", loc)),
            Outcome::Hang { kind, site } => Some(format!("hang({})@{}", kind, site)),
        }
    }
    /// Bytes that C02 compares: CSS or the error text.
    pub fn observable(&self) -> String {
        match self {
            Outcome::Ok(s) => format!("OK\n{}", s),
            Outcome::Err(e) => format!("ERR\n{}", e.display),
            Outcome::Panic { loc, msg } => format!("PANIC {} {}", loc, msg),
            Outcome::Hang { kind, site } => format!("HANG {} {}", kind, site),
        }
    }
    pub fn brief(&self) -> String {
        let s = self.observable();
        let mut t: String = s.chars().take(300).collect();
        if s.len() > t.len() {
            t.push('…');
        }
        t
    }
    pub fn to_json(&self) -> Value {
        match self {
            Outcome::Ok(s) => json!({"ok": s}),
            Outcome::Err(e) => json!({"err": e.display, "kind": e.kind, "message": e.message, "file": e.file, "line": e.line, "col": e.col, "loc_problem": e.loc_problem}),
            Outcome::Panic { loc, msg } => json!({"panic": loc, "msg": msg}),
            Outcome::Hang { kind, site } => json!({"hang": kind, "site": site}),
        }
    }
}

#[derive(Clone, Debug)]
pub struct JobResult {
    pub outcome: Outcome,
    pub fs: Vec<FsEvent>,
    pub log: Vec<LogEvent>,
    pub marks: Vec<String>,
    pub eval_ticks: u64,
    pub lexer_ops: u64,
    pub max_depth: u32,
    pub fired: Vec<bool>,
    /// bytes that appeared on the process's stdout/stderr during the job
    pub stdio_leak: Option<String>,
    pub delivered: Vec<(String, Vec<u8>)>,
    /// clock reads made by the compiling thread during the compilation (simulated clock)
    pub clock_reads: u64,
}

// ---------------------------------------------------------------- panics

#[derive(Clone, Debug, Default)]
pub struct PanicRec {
    pub loc: String,
    pub msg: String,
    pub fuel: Option<&'static str>,
    pub site: String,
}

thread_local! {
    static LAST_PANIC: RefCell<Option<PanicRec>> = const { RefCell::new(None) };
    static MARKS: RefCell<Vec<String>> = const { RefCell::new(Vec::new()) };
}

fn strip_repo(file: &str) -> String {
    // make locations independent of where the repo copy lives
    match file.find("crates/") {
        Some(i) => file[i..].to_string(),
        None => file.to_string(),
    }
}

fn fuel_site() -> String {
    let bt = std::backtrace::Backtrace::force_capture().to_string();
    // innermost grass_compiler frame that is not the lexer or the hook itself
    let mut lines = bt.lines().peekable();
    while let Some(l) = lines.next() {
        let l = l.trim();
        // frame lines look like "12: grass_compiler::parse::sass::SassParser::skip_loud_comment"
        if let Some(pos) = l.find(": ") {
            let sym = &l[pos + 2..];
            if sym.contains("grass_compiler::") && !sym.contains("grass_compiler::verif") && !sym.contains("grass_compiler::lexer") && !sym.contains("Lexer") {
                // strip hash suffix and generic noise
                let mut s = sym.to_string();
                if let Some(h) = s.rfind("::h") {
                    if s.len() - h == 19 {
                        s.truncate(h);
                    }
                }
                return s;
            }
        }
    }
    "unknown".to_string()
}

pub fn install_panic_hook() {
    std::panic::set_hook(Box::new(|info| {
        let loc = info.location().map(|l| format!("{}:{}", strip_repo(l.file()), l.line())).unwrap_or_else(|| "?".into());
        let payload = info.payload();
        let mut rec = PanicRec { loc, ..Default::default() };
        if let Some(f) = payload.downcast_ref::<grass_compiler::verif::FuelExhausted>() {
            rec.fuel = Some(f.0);
            rec.site = if f.0 == "lexer" {
                fuel_site()
            } else if f.0 == "paths" {
                "selector::extend::functions::paths".to_string()
            } else {
                f.0.to_string()
            };
        } else if let Some(s) = payload.downcast_ref::<&str>() {
            rec.msg = s.to_string();
        } else if let Some(s) = payload.downcast_ref::<String>() {
            rec.msg = s.clone();
        } else {
            rec.msg = "<non-string payload>".into();
        }
        LAST_PANIC.with(|p| {
            let mut g = p.borrow_mut();
            // keep the first panic of a job (a second one during unwinding would abort anyway)
            if g.is_none() {
                *g = Some(rec);
            }
        });
    }));
}

pub fn take_last_panic() -> Option<PanicRec> {
    LAST_PANIC.with(|p| p.borrow_mut().take())
}

// ---------------------------------------------------------------- custom fns

fn sim_yield(_args: ArgumentResult, _v: &mut Visitor) -> grass_compiler::Result<SassValue> {
    sched::point(sched::PointKind::Yield, 0);
    Ok(SassValue::Null)
}

fn sim_mark(mut args: ArgumentResult, _v: &mut Visitor) -> grass_compiler::Result<SassValue> {
    let span = args.span();
    let v = args.get_err(0, "v")?;
    let s = v.inspect(span)?;
    MARKS.with(|m| m.borrow_mut().push(s));
    Ok(SassValue::Null)
}

struct Fns(Builtin, Builtin);
// Builtin holds a fn pointer and an id: safe to share
unsafe impl Sync for Fns {}
unsafe impl Send for Fns {}
static FNS: OnceLock<Fns> = OnceLock::new();

/// Must be called once, before any simulated schedule starts (it bumps the
/// process-global function counter).
pub fn init_custom_fns() {
    FNS.get_or_init(|| Fns(Builtin::new(sim_yield), Builtin::new(sim_mark)));
}

// ---------------------------------------------------------------- stdio capture

static CAPTURE_FD: OnceLock<i32> = OnceLock::new();
static PROTO_FD: OnceLock<i32> = OnceLock::new();

/// Redirect fd 1 and 2 of this process into a memfd; returns the fd on which
/// the old stdout remains reachable (for the worker protocol).
pub fn capture_stdio() -> i32 {
    unsafe {
        let saved = libc::dup(1);
        let name = b"simstdio\0";
        let m = libc::memfd_create(name.as_ptr() as *const libc::c_char, 0);
        assert!(m >= 0 && saved >= 0);
        libc::dup2(m, 1);
        libc::dup2(m, 2);
        let _ = CAPTURE_FD.set(m);
        let _ = PROTO_FD.set(saved);
        saved
    }
}

pub fn stdio_captured_len() -> i64 {
    match CAPTURE_FD.get() {
        None => 0,
        Some(&fd) => unsafe {
            let mut st: libc::stat = std::mem::zeroed();
            if libc::fstat(fd, &mut st) == 0 {
                st.st_size as i64
            } else {
                0
            }
        },
    }
}

pub fn stdio_take() -> Option<String> {
    let fd = *CAPTURE_FD.get()?;
    let len = stdio_captured_len();
    if len <= 0 {
        return None;
    }
    let mut buf = vec![0u8; len as usize];
    unsafe {
        let n = libc::pread(fd, buf.as_mut_ptr() as *mut libc::c_void, buf.len(), 0);
        buf.truncate(n.max(0) as usize);
        libc::ftruncate(fd, 0);
        libc::lseek(fd, 0, libc::SEEK_SET);
    }
    Some(String::from_utf8_lossy(&buf).into_owned())
}

// ---------------------------------------------------------------- run

fn check_loc(loc: &SpanLoc, message: &str, fs: Option<&SimFs>, spec: &JobSpec) -> Option<String> {
    let src = loc.file.source();
    let name = loc.file.name();
    // the file named must be the entry or something the Fs delivered, and the
    // text the error carries must be the text delivered under that name
    let mut delivered: Option<Vec<u8>> = None;
    if let Some(fs) = fs {
        let g = fs.inner.borrow();
        if let Some(b) = g.delivered.get(name) {
            delivered = Some(b.clone());
        }
    }
    match (&spec.entry, &delivered) {
        (_, Some(b)) => {
            if b.as_slice() != src.as_bytes() {
                return Some(format!("error names {:?} but carries a text different from what the Fs delivered under that name", name));
            }
        }
        (Entry::Text(t), None) => {
            if name != "stdin" {
                return Some(format!("error names {:?}, which was never read through the Fs and is not the entry", name));
            }
            if t != src {
                return Some("error for the entry text carries a different text".into());
            }
        }
        (Entry::Path(_), None) => {
            return Some(format!("error names {:?}, which was never read through the Fs", name));
        }
    }
    // A location is inside the text iff (line, column) can be converted back to
    // an offset of the text: the line exists and the column does not exceed the
    // characters of the raw line *including its terminator* (an error at the end
    // of a line legitimately points at the `\n`, which after a `\r` is one past
    // the visible text), or at the end of the text.
    let raw: Vec<&str> = src.split_inclusive('\n').collect();
    let nlines = src.split('\n').count();
    if loc.begin.line >= nlines || loc.end.line >= nlines {
        return Some(format!("line {} (end {}) outside the {} lines of {}", loc.begin.line + 1, loc.end.line + 1, nlines, name));
    }
    let width = |l: usize| raw.get(l).map_or(0, |t| t.chars().count());
    if loc.begin.column > width(loc.begin.line) || loc.end.column > width(loc.end.line) {
        return Some(format!("column {} of line {} (end: column {} of line {}) outside the text of {}", loc.begin.column + 1, loc.begin.line + 1, loc.end.column + 1, loc.end.line + 1, name));
    }
    if (loc.begin.line, loc.begin.column) > (loc.end.line, loc.end.column) {
        return Some("location ends before it begins".into());
    }
    let _ = message;
    None
}

fn describe_err(e: Box<grass_compiler::Error>, fs: Option<&SimFs>, spec: &JobSpec) -> Outcome {
    let display = e.to_string();
    let kind = (*e).clone().kind();
    let mut info = ErrInfo {
        display,
        kind: String::new(),
        message: String::new(),
        file: String::new(),
        line: 0,
        col: 0,
        end_line: 0,
        end_col: 0,
        loc_problem: None,
        src_hash: 0,
        src_len: 0,
        ascii_display: String::new(),
    };
    match kind {
        ErrorKind::ParseError { message, loc, unicode } => {
            info.kind = "parse".into();
            info.file = loc.file.name().to_string();
            info.line = loc.begin.line + 1;
            info.col = loc.begin.column + 1;
            info.end_line = loc.end.line + 1;
            info.end_col = loc.end.column + 1;
            info.src_hash = crate::prng::hash_bytes(0, loc.file.source().as_bytes());
            info.src_len = loc.file.source().len();
            info.loc_problem = check_loc(&loc, &message, fs, spec);
            if unicode != spec.unicode {
                info.loc_problem = Some(format!("error carries unicode={} but options say {}", unicode, spec.unicode));
            }
            if !info.display.starts_with(&format!("Error: {}", message)) {
                info.loc_problem = Some("rendered error does not start with `Error: <message>`".into());
            }
            info.message = message;
        }
        ErrorKind::IoError(io) => {
            info.kind = "io".into();
            info.message = io.to_string();
            if !info.display.starts_with("Error: ") {
                info.loc_problem = Some("rendered io error does not start with `Error: `".into());
            }
        }
        ErrorKind::FromUtf8Error(s) => {
            info.kind = "utf8".into();
            info.message = s;
            if !info.display.starts_with("Error: ") {
                info.loc_problem = Some("rendered utf8 error does not start with `Error: `".into());
            }
        }
        _ => {
            info.kind = "other".into();
        }
    }
    Outcome::Err(info)
}

/// The `Options` value a job asks for (everything but the entry point).
pub fn make_options<'a>(spec: &JobSpec, fs: &'a dyn grass_compiler::Fs, logger: &'a dyn Logger) -> Options<'a> {
    let fns = FNS.get().expect("init_custom_fns not called");
    let mut opts = Options::default()
        .fs(fs)
        .logger(logger)
        .style(if spec.compressed { OutputStyle::Compressed } else { OutputStyle::Expanded })
        .quiet(spec.quiet)
        .unicode_error_messages(spec.unicode)
        .allows_charset(spec.charset)
        .add_custom_fn("sim-yield", fns.0.clone())
        .add_custom_fn("sim-mark", fns.1.clone());
    for lp in &spec.load_paths {
        opts = opts.load_path(lp);
    }
    match spec.input_syntax.as_deref() {
        Some("sass") => opts = opts.input_syntax(InputSyntax::Sass),
        Some("css") => opts = opts.input_syntax(InputSyntax::Css),
        Some("scss") => opts = opts.input_syntax(InputSyntax::Scss),
        _ => {}
    }
    opts
}

/// Everything of a job that goes into its `Options`: two jobs with the same key ask for equal
/// option values, so a caller may hand both the same `Options` object.
pub fn options_key(spec: &JobSpec) -> String {
    format!("{}|{}|{}|{}|{:?}|{:?}", spec.compressed, spec.quiet, spec.unicode, spec.charset, spec.load_paths, spec.input_syntax)
}

/// An `Fs` / `Logger` pair a caller keeps for the life of a thread and points at the current
/// job's simulated file system and recorder: what a build tool does that creates its `Options`
/// (with its own Fs and Logger objects) once and compiles many entry points with it.
#[derive(Debug)]
pub struct ThreadShared {
    fs: std::cell::Cell<*const SimFs>,
    logger: std::cell::Cell<*const SimLogger>,
}

impl ThreadShared {
    pub fn new() -> Self {
        ThreadShared { fs: std::cell::Cell::new(std::ptr::null()), logger: std::cell::Cell::new(std::ptr::null()) }
    }
    fn fs(&self) -> &SimFs {
        let p = self.fs.get();
        assert!(!p.is_null(), "ThreadShared used outside a job");
        unsafe { &*p }
    }
    fn lg(&self) -> &SimLogger {
        let p = self.logger.get();
        assert!(!p.is_null(), "ThreadShared used outside a job");
        unsafe { &*p }
    }
}

impl grass_compiler::Fs for ThreadShared {
    fn is_dir(&self, path: &std::path::Path) -> bool {
        grass_compiler::Fs::is_dir(self.fs(), path)
    }
    fn is_file(&self, path: &std::path::Path) -> bool {
        grass_compiler::Fs::is_file(self.fs(), path)
    }
    fn read(&self, path: &std::path::Path) -> std::io::Result<Vec<u8>> {
        grass_compiler::Fs::read(self.fs(), path)
    }
    fn canonicalize(&self, path: &std::path::Path) -> std::io::Result<std::path::PathBuf> {
        grass_compiler::Fs::canonicalize(self.fs(), path)
    }
}

impl Logger for ThreadShared {
    fn debug(&self, location: SpanLoc, message: &str) {
        self.lg().debug(location, message)
    }
    fn warn(&self, location: SpanLoc, message: &str) {
        self.lg().warn(location, message)
    }
}

/// Options objects kept by a simulated thread between its jobs, by `options_key`.
pub type OptionsCache<'a> = Vec<(String, Options<'a>)>;

pub fn build_and_run(spec: &JobSpec, fs: &dyn grass_compiler::Fs, logger: &dyn Logger, simfs: Option<&SimFs>) -> Outcome {
    let opts = make_options(spec, fs, logger);
    run_with_options(spec, &opts, simfs)
}

pub fn run_with_options(spec: &JobSpec, opts: &Options, simfs: Option<&SimFs>) -> Outcome {
    grass_compiler::verif::set_lexer_fuel(true);
    grass_compiler::verif::set_eval_fuel(spec.eval_fuel);
    grass_compiler::verif::set_depth_limit(spec.depth_limit);
    grass_compiler::verif::set_paths_fuel(PATHS_FUEL);
    let _ = take_last_panic();
    crate::seams::set_sim_clock(true);
    let r = catch_unwind(AssertUnwindSafe(|| {
        let res = match &spec.entry {
            Entry::Path(p) => grass_compiler::from_path(p, opts),
            Entry::Text(t) => grass_compiler::from_string(t.clone(), opts),
        };
        match res {
            Ok(css) => Outcome::Ok(css),
            Err(e) => describe_err(e, simfs, spec),
        }
    }));
    crate::seams::set_sim_clock(false);
    let out = match r {
        Ok(o) => o,
        Err(_) => {
            let rec = take_last_panic().unwrap_or_default();
            match rec.fuel {
                // many paths with next to no evaluation work: the extension algorithm is blowing
                // up; with a lot of evaluation work behind it, it is just a long-running program
                Some("paths") if grass_compiler::verif::eval_ticks() > 100_000 => Outcome::Hang { kind: "eval".to_string(), site: "eval".to_string() },
                Some(k) => Outcome::Hang { kind: k.to_string(), site: rec.site },
                None => Outcome::Panic { loc: rec.loc, msg: rec.msg.chars().take(200).collect() },
            }
        }
    };
    out
}

/// Run on the current thread.
pub fn run_job(spec: &JobSpec) -> JobResult {
    run_job_in(spec, None)
}

/// Run on the current thread; with `shared`, through the thread's long-lived Fs / Logger objects
/// and an `Options` value that earlier jobs of the thread with equal option values already used.
pub fn run_job_in<'a>(spec: &JobSpec, shared: Option<(&'a ThreadShared, &mut OptionsCache<'a>)>) -> JobResult {
    let before = stdio_captured_len();
    let clock_before = crate::seams::clock_reads();
    MARKS.with(|m| m.borrow_mut().clear());
    let logger = SimLogger::default();
    let simfs = SimFs::new(&spec.files, &spec.extra_dirs, &spec.cwd, spec.canon.clone(), spec.faults.clone(), crate::prng::mix_str(7, &spec.label));
    let outcome = match (spec.fs_kind.as_str(), shared) {
        ("null", _) => build_and_run(spec, &grass_compiler::NullFs, &logger, None),
        ("std", _) => build_and_run(spec, &grass_compiler::StdFs, &logger, None),
        (_, Some((sh, cache))) => {
            sh.fs.set(&simfs as *const SimFs);
            sh.logger.set(&logger as *const SimLogger);
            let key = options_key(spec);
            let at = match cache.iter().position(|(k, _)| *k == key) {
                Some(i) => i,
                None => {
                    cache.push((key, make_options(spec, sh, sh)));
                    cache.len() - 1
                }
            };
            let o = run_with_options(spec, &cache[at].1, Some(&simfs));
            sh.fs.set(std::ptr::null());
            sh.logger.set(std::ptr::null());
            o
        }
        _ => build_and_run(spec, &simfs, &logger, Some(&simfs)),
    };
    let eval_ticks = grass_compiler::verif::eval_ticks();
    let lexer_ops = grass_compiler::verif::lexer_ops();
    let max_depth = grass_compiler::verif::max_depth();
    grass_compiler::verif::set_depth_limit(0);
    grass_compiler::verif::set_paths_fuel(0);
    grass_compiler::verif::set_lexer_fuel(false);
    grass_compiler::verif::set_eval_fuel(0);
    let after = stdio_captured_len();
    let stdio_leak = if after != before { stdio_take() } else { None };
    let inner = simfs.inner.into_inner();
    JobResult {
        outcome,
        fs: inner.history,
        log: logger.events.into_inner(),
        marks: MARKS.with(|m| std::mem::take(&mut *m.borrow_mut())),
        eval_ticks,
        lexer_ops,
        max_depth,
        fired: inner.fired,
        stdio_leak,
        delivered: inner.delivered.into_iter().collect(),
        clock_reads: crate::seams::clock_reads() - clock_before,
    }
}

/// Run on a fresh OS thread (fresh interner, fresh hash keys) with the given stack.
pub fn run_job_fresh_thread(spec: &JobSpec, stack: usize) -> Option<JobResult> {
    let spec = spec.clone();
    std::thread::Builder::new()
        .stack_size(stack)
        .spawn(move || run_job(&spec))
        .ok()?
        .join()
        .ok()
}
