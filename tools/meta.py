#!/usr/bin/env python3
# tools/meta.py <seeded-dir> <property> <what> <needs> <verdict-json-list>  : write meta.json of a stored seeded change
import json, sys, os
d, prop, what, needs, checks = sys.argv[1:6]
log = [l.rstrip("\n") for l in open(os.path.join(d, "confirm.log"))] if os.path.exists(os.path.join(d, "confirm.log")) else []
meta = {
    "id": os.path.basename(d.rstrip("/")),
    "property": prop,
    "what": what,
    "needs_to_manifest": needs,
    "written_by": "independent sub-agent (thirteenth wave: per-agent flavour hints) given the property text, the list of ideas already used and a scratch worktree",
    "confirmed_by_me": {"how": "tools/confirm_seed.sh (clean tree + patch: pinned suite passes; demonstration fails with the patch, passes without)", "log": log},
    "checks_run": json.loads(checks),
}
json.dump(meta, open(os.path.join(d, "meta.json"), "w"), indent=1, ensure_ascii=False)
print("wrote", os.path.join(d, "meta.json"))
