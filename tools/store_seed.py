#!/usr/bin/env python3
"""tools/store_seed.py <worktree-name> <id-slug> <property> <wave-note> <what> <needs> <verdict-json>
Copies a confirmed sub-agent change from /tmp/seed/<worktree-name>/seed into /verif/seeded/<id-slug>/ with a meta.json."""
import json, os, shutil, sys
wt, slug, prop, wave, what, needs, verdicts = sys.argv[1:8]
src = f"/tmp/seed/{wt}/seed"; dst = f"/verif/seeded/{slug}"
os.makedirs(dst, exist_ok=True)
for f in ("patch.diff", "seed_demo.rs", "demo.sh", "README.md", "PREEXISTING.md"):
    if os.path.exists(f"{src}/{f}"):
        shutil.copy(f"{src}/{f}", f"{dst}/{f}")
log = [l.rstrip("\n") for l in open(f"{src}/confirm.log")] if os.path.exists(f"{src}/confirm.log") else []
meta = {"id": slug, "property": prop, "what": what, "needs_to_manifest": needs,
        "written_by": f"independent sub-agent ({wave}) given the property text, the list of ideas already used and a scratch worktree",
        "confirmed_by_me": {"how": f"tools/confirm_seed.sh {wt}", "log": log},
        "checks_run": json.loads(verdicts)}
json.dump(meta, open(f"{dst}/meta.json", "w"), indent=1, ensure_ascii=False)
print("stored", dst, os.listdir(dst))
