#!/bin/bash
# tools/confirm_seed.sh <name> : independent confirmation of a sub-agent's seeded change in its worktree /tmp/seed/<name>
# 1. the source change is exactly seed/patch.diff   2. the pinned suite passes with it (demo set aside)
# 3. the demo fails with it                         4. the demo passes without it
set -u
W=/tmp/seed/$1; cd "$W" || exit 2
L="$W/seed/confirm.log"; : > "$L"
export CARGO_NET_OFFLINE=true
DEMO_RS=crates/lib/tests/seed_demo.rs
[ -f seed/seed_demo.rs ] && cp seed/seed_demo.rs /tmp/seed/$1.demo.rs
# start from a clean tree, apply the patch
git checkout -q -- . ; rm -f $DEMO_RS
git apply seed/patch.diff || { echo "PATCH-DOES-NOT-APPLY" | tee -a "$L"; exit 1; }
echo "== suite with the change" >> "$L"
cargo test --workspace --no-fail-fast --offline > "$W/seed/confirm_suite.txt" 2>&1; RC=$?
P=$(grep -E "^test result" "$W/seed/confirm_suite.txt" | awk '{p+=$4; f+=$6} END {print p" passed "f" failed"}')
echo "suite rc=$RC $P" | tee -a "$L"
demo() {
  if [ -f seed/seed_demo.rs ]; then
    cp seed/seed_demo.rs $DEMO_RS
    timeout 600 cargo test --offline -p grass --test seed_demo > "$W/seed/confirm_demo_$1.txt" 2>&1; R=$?
    rm -f $DEMO_RS
  else
    timeout 600 bash seed/demo.sh > "$W/seed/confirm_demo_$1.txt" 2>&1; R=$?
  fi
  echo "demo ($1) rc=$R" | tee -a "$L"
  return $R
}
demo with_change; A=$?
git apply -R seed/patch.diff
demo without_change; B=$?
git apply seed/patch.diff
if [ $RC -eq 0 ] && [ $A -ne 0 ] && [ $B -eq 0 ]; then echo "CONFIRMED $1" | tee -a "$L"; else echo "NOT-CONFIRMED $1 (suite=$RC with=$A without=$B)" | tee -a "$L"; fi
