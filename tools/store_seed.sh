#!/bin/bash
# tools/store_seed.sh <worktree-name> <seeded-id> <property> : copy a confirmed sub-agent delivery from /tmp/seed/<name>/seed into /verif/seeded/<id>/
# (patch.diff, demonstration, README.md, confirm.log); meta.json is written by hand afterwards.
set -eu
W=/tmp/seed/$1/seed; D=/verif/seeded/$2
grep -q "^CONFIRMED $1" "$W/confirm.log" || { echo "not confirmed: $1"; exit 1; }
mkdir -p "$D"
cp "$W/patch.diff" "$D/patch.diff"
[ -f "$W/seed_demo.rs" ] && cp "$W/seed_demo.rs" "$D/"
[ -f "$W/demo.sh" ] && cp "$W/demo.sh" "$D/"
[ -f "$W/README.md" ] && cp "$W/README.md" "$D/"
cp "$W/confirm.log" "$D/confirm.log"
echo "stored $D"
