#!/bin/bash
# tools/run_mutant.sh <patch.diff> <property> [tier]
# Applies a property-breaking patch to /repo, runs the check for <property> with
# evidence and replays redirected to a scratch directory, restores /repo.
# Prints CAUGHT (check exited 1 with a VIOLATION line), MISSED (exit 0) or ERROR.
set -u
PATCH="$(readlink -f "$1")"; PROP="$2"; TIER="${3:-quick}"
NAME="$(basename "$PATCH" .diff)"; [ "$NAME" = patch ] && NAME="$(basename "$(dirname "$PATCH")")"; OUT="${MUTANT_OUT:-/tmp/mutant-out}/$NAME-$PROP"
rm -rf "$OUT"; mkdir -p "$OUT"
cp /verif/known_findings.json "$OUT/"
if ! git -C /repo diff --quiet; then echo "ERROR /repo has uncommitted changes"; exit 3; fi
git -C /repo apply "$PATCH" || { echo "ERROR patch does not apply"; exit 3; }
VERIF_OUT="$OUT" /verif/check "$PROP" "$TIER" > "$OUT/log.txt" 2>&1
RC=$?
git -C /repo checkout -- . 
git -C /repo clean -fdq crates 2>/dev/null
if [ $RC -eq 1 ] && grep -q "^VIOLATION property=$PROP" "$OUT/log.txt"; then
  echo "CAUGHT $NAME $PROP: $(grep -A1 '^VIOLATION' "$OUT/log.txt" | grep class | head -3 | tr '\n' ' ')"
elif [ $RC -eq 0 ]; then
  echo "MISSED $NAME $PROP"
else
  echo "ERROR $NAME $PROP rc=$RC: $(tail -n 3 "$OUT/log.txt" | tr '\n' ' ')"
fi
exit 0
