#!/bin/bash
# tools/run_mutant.sh <patch.diff> <property> [tier]
# Applies a property-breaking patch to a scratch worktree of /repo (never to /repo
# itself), runs the check for <property> against it (VERIF_REPO / VERIF_TARGET /
# VERIF_OUT redirected), and restores the worktree.
# Prints CAUGHT (check exited 1 with a VIOLATION line), MISSED (exit 0) or ERROR.
set -u
PATCH="$(readlink -f "$1")"; PROP="$2"; TIER="${3:-quick}"
NAME="$(basename "$PATCH" .diff)"; [ "$NAME" = patch ] && NAME="$(basename "$(dirname "$PATCH")")"
OUT="${MUTANT_OUT:-/tmp/mutant-out}/$NAME-$PROP"
MREPO="${MUTANT_REPO:-/tmp/mrepo}"; MTARGET="${MUTANT_TARGET:-/tmp/mtarget}"
rm -rf "$OUT"; mkdir -p "$OUT"
cp /verif/known_findings.json "$OUT/"
HEAD=$(git -C /repo rev-parse HEAD)
if [ ! -d "$MREPO" ]; then git -C /repo worktree add --detach "$MREPO" "$HEAD" -q || { echo "ERROR cannot create $MREPO"; exit 3; }; fi
git -C "$MREPO" checkout -q -- . ; git -C "$MREPO" checkout -q --detach "$HEAD" || { echo "ERROR cannot move $MREPO to $HEAD"; exit 3; }
git -C "$MREPO" apply "$PATCH" || { echo "ERROR patch does not apply"; exit 3; }
VERIF_REPO="$MREPO" VERIF_TARGET="$MTARGET" VERIF_OUT="$OUT" /verif/check "$PROP" "$TIER" > "$OUT/log.txt" 2>&1
RC=$?
git -C "$MREPO" checkout -q -- .
if [ $RC -eq 1 ] && grep -q "^VIOLATION property=$PROP" "$OUT/log.txt"; then
  echo "CAUGHT $NAME $PROP: $(grep -A1 '^VIOLATION' "$OUT/log.txt" | grep class | head -3 | tr '\n' ' ')"
elif [ $RC -eq 0 ]; then
  echo "MISSED $NAME $PROP"
else
  echo "ERROR $NAME $PROP rc=$RC: $(tail -n 3 "$OUT/log.txt" | tr '\n' ' ')"
fi
exit 0
